#!/bin/bash
# tools/quick_all.sh [logdir] : every check once at the quick tier (evidence written), logs under logdir (default /tmp/quickall)
cd "$(dirname "$0")/.."
L=${1:-/tmp/quickall}; mkdir -p $L
for i in $(seq -w 1 20); do
  ./check C$i > $L/C$i.log 2>&1; rc=$?
  echo "C$i exit=$rc $(grep -c '^VIOLATION' $L/C$i.log) violations $(grep -m1 '^INCONCLUSIVE' $L/C$i.log | cut -c1-160)"
done
