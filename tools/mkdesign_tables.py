#!/venv/bin/python
"""Fills the MEASURED-TABLE and SEED-TABLE blocks of DESIGN.md from evidence/*.json and seeded/MATRIX.json."""
import json, os, glob, re
HERE = os.path.dirname(os.path.dirname(os.path.abspath(__file__)))
s = open(os.path.join(HERE, "DESIGN.md")).read()
rows = ["| id | tier / seed | cases | distinct non-trivial | wall | anchored functions executed | deciding-monitor evaluations (measured by the run) |", "|----|----|----|----|----|----|----|"]
for f in sorted(glob.glob(os.path.join(HERE, "evidence", "C*.json"))):
    d = json.load(open(f)); c = d["coverage"]
    mon = ", ".join(f"{k} {v}" for k, v in sorted(c.get("monitor_evaluations", {}).items(), key=lambda kv: -kv[1])[:6])
    lr = c.get("library_reach", {})
    reach = f"{lr.get('anchored_functions_executed', '?')} / {lr.get('anchored_functions_defined', '?')}"
    rows.append(f"| {d['property_id']} | {d['tier']} / {d['seed']} | {c['evaluations']} | {c['distinct_nontrivial']} | {d['wall_s']:.0f} s | {reach} | {mon} |")
block = "Measured on the unchanged (repaired) tree by the last committed runs (`evidence/*.json`; 16 cores):\n\n" + "\n".join(rows) + "\n"
s = re.sub(r"<!-- MEASURED-TABLE-BEGIN -->.*?<!-- MEASURED-TABLE-END -->", "<!-- MEASURED-TABLE-BEGIN -->\n" + block + "<!-- MEASURED-TABLE-END -->", s, flags=re.S)
mp = os.path.join(HERE, "seeded", "MATRIX.json")
if os.path.exists(mp):
    M = json.load(open(mp))
    rows = ["| change | breaks | what it does (needs to manifest) | own check (quick) | also caught by | run without alarm |", "|----|----|----|----|----|----|"]
    for sid in sorted(M):
        m = M[sid]
        meta = json.load(open(os.path.join(HERE, "seeded", sid, "meta.json")))
        own = m["results"].get(sid[:3], "?")
        also = sorted(k for k, v in m["results"].items() if v == "VIOLATION" and k != sid[:3])
        quiet = sorted(k for k, v in m["results"].items() if v == "held" and k != sid[:3])
        summ = (meta.get("summary", "")[:150] + " — needs: " + meta.get("needs_to_manifest", "")[:140]).replace("|", "/").replace("\n", " ")
        rows.append(f"| {sid} | {sid[:3]} | {summ} | {own} | {', '.join(also) or '–'} | {', '.join(quiet) or '–'} |")
    caught = sum(1 for sid in M if M[sid]["results"].get(sid[:3]) == "VIOLATION")
    block = (f"{caught} of {len(M)} changes are reported as a VIOLATION by the quick tier of the check of the property they were written against "
             f"(`VERIF_SEED=0`); the other columns come from running related checks against the same change.\n\n" + "\n".join(rows) + "\n")
    s = re.sub(r"<!-- SEED-TABLE-BEGIN -->.*?<!-- SEED-TABLE-END -->", "<!-- SEED-TABLE-BEGIN -->\n" + block + "<!-- SEED-TABLE-END -->", s, flags=re.S)
open(os.path.join(HERE, "DESIGN.md"), "w").write(s)
print("tables written")
