TB = "pandas/pint/pint-pandas/numpy/pytz and the packaged Boavizta/EcoLogits/ecobenchmark data are trusted; "
CHECKS["C01"] = {
 "level": "exploration",
 "technique": "runtime monitoring: random edit histories on live systems, rebuild-from-spec oracle after every edit",
 "text": "Random sharing topologies x random edit histories (numeric, link, list assignment, every list mutator incl. no-ops, grouped updates, undo) are executed on the real library; after every accepted edit every calculated slot is compared with a system freshly built from the harness' own record of the inputs, undo is compared with the snapshot taken before, and previous_/initial_ totals with totals the monitor read itself. Held on the histories explored, not a proof.",
 "note": TB + "the from-scratch computation is the reference (its correctness is C02/C03/C04/C12/C18); comparisons at a floating-point ceil boundary are skipped and counted",
}
