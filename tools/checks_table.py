TB = "pandas/pint/pint-pandas/numpy/pytz and the packaged Boavizta/EcoLogits/ecobenchmark data are trusted; "
CHECKS["C01"] = {
 "level": "exploration",
 "technique": "runtime monitoring: random edit histories on live systems, rebuild-from-spec oracle after every edit",
 "text": "Random sharing topologies x random edit histories (numeric, link, list assignment, every list mutator incl. no-ops, grouped updates, undo) are executed on the real library; after every accepted edit every calculated slot is compared with a system freshly built from the harness' own record of the inputs, undo is compared with the snapshot taken before, and previous_/initial_ totals with totals the monitor read itself. Held on the histories explored, not a proof.",
 "note": TB + "the from-scratch computation is the reference (its correctness is C02/C03/C04/C12/C18); comparisons at a floating-point ceil boundary are skipped and counted",
}
CHECKS["C02"] = {
 "level": "exploration",
 "technique": "runtime monitoring: invariant evaluated at quiescent points of random edit histories (monitor's own link walk and float sums)",
 "text": "At every quiescent point of generated sharing-heavy models and edit histories (after the build, after every accepted and every refused edit) the monitor walks its own record of the links, sums the published per-object footprints with plain floats keyed by timestamp and compares with total_footprint, the five aggregate views, finiteness/sign and energy x the applicable carbon intensity. Held on the executions explored.",
 "note": TB + "per-object energy/fabrication series are taken as published (their derivation is C03/C04/C12); total_footprint is rounded to 4 decimals by the library (5e-5 kg per hour tolerance)",
}
CHECKS["C03"] = {
 "level": "exploration",
 "technique": "runtime monitoring: reference-model comparator (exact Fraction durations, dict series) on generated and edited models",
 "text": "Every published job / pattern / server volume series of generated models (duration x step-time x multiplicity grid around each hour boundary, random multi-pattern multi-zone models, and live models after edit histories) is compared timestamp by timestamp with an independent ~60 line reference, and the conservation totals are asserted. Where an exact duration sits on an hour boundary both neighbouring floors/ceils are accepted.",
 "note": TB + "UTC starts are taken as published (their conversion is C11) after checking that their total equals the local total",
}
CHECKS["C04"] = {
 "level": "exploration",
 "technique": "runtime monitoring: storage-ledger reference model + sizing inequalities + classification of raised exceptions",
 "text": "Generated models (server types, base consumptions, utilisation, storage duration / replication / base need / capacity, writers and deleters over equal, overlapping and disjoint windows, zero tails) are built; raw need, per-type instance relations, the cumulative storage ledger (by timestamp), coverage, sign and active<=provisioned are checked at every hour; each model is rebuilt with a fixed count that is just enough (must be honoured exactly) or one short (must raise); every exception is classified, and a deletion-free model rejected for negative storage or any numpy shape error is a violation.",
 "note": TB + "per-job stored volumes are taken as published (C03); tolerance 2e-9 of the summed flows on the cancelling ledger",
}
CHECKS["C09"] = {
 "level": "exploration",
 "technique": "runtime monitoring: pre/post-condition contracts installed on the real operators, generated operand pairs + internal calls of system workloads",
 "text": "Contracts wrap every arithmetic operator and helper of the three value classes; for each call they snapshot the operands, let the real code run, and compare the result with plain dict-of-floats arithmetic on base-unit magnitudes (timestamp alignment with missing = 0, dimension of the result, operands physically unchanged, incompatible dimensions must raise, empty neutral / absorbing). A generator drives ~7000 operand pairs in both orders plus algebraic laws, and generated system builds/edits run with the contracts active so that every internal call is checked too.",
 "note": TB + "scope notes of DESIGN.md C09: scalar +/- hourly, hourly/hourly and naive-vs-aware raise by design; subtraction with missing hours is not asserted",
}
CHECKS["C11"] = {
 "level": "exploration",
 "technique": "runtime monitoring: post-condition monitor on convert_to_utc and on a real UsagePattern's update rule, per-timestamp pytz classification oracle",
 "text": "For zones x offset transitions (1990-2037) x series ending -3..+3 h around the transition or running up to 1200 h past it, the conversion result is checked for a strictly increasing unique UTC index, preserved total, every valid local hour exactly at local-offset, and the remainder being non-negative, supported only on admissible instants and summing to the values of the repeated/skipped hours. Quick: 40 zones incl. all :30/:45 and day-skipping ones; thorough: all 433 pytz common zones.",
 "note": TB + "pytz 2024.1 is the tz database on both sides (a newer system tzdata would raise false alarms); the exact instant a *skipped* hour is moved to is not pinned (pandas' shift_forward), only that it is merged once near its transition",
}
CHECKS["C20"] = {
 "level": "exploration",
 "technique": "runtime monitoring: post-condition monitor on every time_builders helper with an independent datetime-arithmetic oracle",
 "text": "3600 (quick) / 100000 (thorough) generated calls of the nine helpers (start dates incl. leap days, year/month ends, mid-day starts; spans 1 h - 800 days incl. non-whole days; 6 units; all four frequencies with random active days and hours; invalid argument combinations) are checked for start, 1 h step, contiguity, length, unit and every value against the monitor's own calendar arithmetic.",
 "note": TB + "inclusive end of the frequency helpers and int(hours) length of the growth helpers are asserted as observed on the unchanged tree; timespans are given in hour/day units with exactly representable values",
}
CHECKS["C05"] = {
 "level": "fault_enumeration",
 "technique": "runtime monitoring: before/after observation with object identity and id-level graph around ModelingUpdate(changes, date), injected real failures, toggle strings",
 "text": "For generated systems x change lists x date kinds x fault kinds (refusal before apply, refusal after apply, recomputation failure at each raising update function incl. a failure in the middle of a per-pattern dict update) the full baseline observation (identity of every value object, values, links, id-level graph) taken before the simulation must be identical after it returned or raised and after every reset of a random set/reset string; set must be reproducible. Fault kinds are enumerated, the systems and change lists are sampled.",
 "note": TB + "system.simulation / previous_change / all_changes / previous_total_* legitimately record the simulation and are excluded (previous_total_* are checked to be the baseline totals)",
}
CHECKS["C06"] = {
 "level": "exploration",
 "technique": "runtime monitoring: differential against a twin system on which the same changes are really applied; pairing / window / rejection monitors on the ModelingUpdate object",
 "text": "First-hour simulations (also with the date expressed in another zone) are compared slot by slot with a twin built from the same spec on which the same changes were really made; interior dates with every pattern active are checked for hours before the date; every recomputed value is checked to be paired with and twin-linked to its baseline value; dates outside the patterns' period and naive dates must be refused.",
 "note": TB + "the library derives its modelled period from hourly ancestors outside the recomputation chain: valid-looking dates that it refuses are counted, not alarmed; change lists that supply a new hourly series are outside the no-hour-before-date claim",
}
CHECKS["C07"] = {
 "level": "exploration",
 "technique": "runtime monitoring: re-evaluation of every node of the recorded explanation trees with plain arithmetic + contracts on operator calls (recorded parents are the operands)",
 "text": "At every quiescent point of generated models (plain and with all builder classes), edit histories and simulations toggled on, every node of every explanation tree whose operator is + - * / (and negate/abs/sum/max/duplicate) is re-evaluated from its recorded operands with plain float arithmetic on base-unit magnitudes and compared with the displayed value and dimension; explain() must run, calculated attributes and leaves must be labelled, attached input leaves sourced; contracts on every operator call check that the recorded parents are the very operands (~10^5 nodes and ~5*10^4 operator calls per quick run).",
 "note": TB + "operators other than the listed ones (shift, UTC conversion, ceil, data look-ups) are traversed but not re-evaluated here (C03/C09/C11/C17 check those operations themselves)",
}
CHECKS["C17"] = {
 "level": "exploration",
 "technique": "runtime monitoring: differential against a plain twin model + independent recomputation of each builder rule from the packaged data",
 "text": "Models containing every builder class are compared slot by slot with a plain twin (plain Server/Job carrying the derived parameters, services folded into base consumption); each derived parameter is recomputed by the monitor from the EcoLogits / Ecobenchmark / Boavizta data with the builder's stated rule; builder inputs are then edited (incl. provider+model and provider+instance grouped updates) and the live model compared with a rebuilt one and its twin. quick: all 7 resolutions and all computable technology x use-case pairs + stratified models / instance types; thorough: exhaustive over the four categorical spaces (7, 29, 295, 1919).",
 "note": TB + "a plain Job cannot target a GPUServer (default compute in cpu_core), so the twin of a GenAI job is a harness-defined Job subclass whose default compute is in gpu; technology x use-case pairs absent from the packaged table cannot be computed by the library (IndexError) and are excluded",
}
CHECKS["C08"] = {
 "level": "exploration",
 "technique": "runtime monitoring: structural invariant on the live id-level graph, update-order monitor against the monitor's own closure, completeness by one-at-a-time input perturbation and rebuild",
 "text": "At every quiescent point of generated models, edits, simulations and toggles every listed edge is checked to be held by the model and listed on both ends, the graph to be acyclic and the exported JSON to list exactly these edges; for every input the derived update chain is compared with the monitor's descendant closure (each id once, after its ancestors). On the final model inputs are perturbed one at a time (x1.37, x10, x0.001, x3600 capped, categorical/zone switch, empty->fixed count), the model rebuilt, and every changed calculated slot must have the input among its transitive ancestors.",
 "note": TB + "all entries of a per-pattern dict share one id and are one node; quick samples 24 (input, perturbation) pairs per system, thorough takes all; known finding F24 (dangling edges while a link-changing simulation is toggled on)",
}
CHECKS["C16"] = {
 "level": "exploration",
 "technique": "runtime monitoring: invariant evaluated after every operation (monitor's own forward-link walk vs reverse look-ups) + plain Python list replayed in lock-step",
 "text": "Sequences of list mutators (every one of them, with present / absent / duplicate / out-of-range / no-op arguments), link and list assignments (incl. assigning another object's live list), edits built to fail and roll back, simulations, self_delete of referenced objects and cross-system link attempts are run on generated systems next to a second system; after every operation the monitor recomputes forward links from the objects' own attributes and compares them with modeling_obj_containers and the derived look-ups (jobs, usage_patterns, networks, systems), checks that every list is attached, that contents equal a Python list given the same operation (what Python refuses must be refused and change nothing) and that no object is in two systems.",
 "note": TB + "list.reverse()/sort() are outside the operation list of the property and are not generated; an operation may raise when the model it would produce is itself invalid (decided by a fresh build of the resulting inputs)",
}
CHECKS["C18"] = {
 "level": "exploration",
 "technique": "runtime monitoring: fixed-point observation before/after explicit recomputation schedules; physical digests of every input before/after reads, explain, export and plots",
 "text": "On generated systems (plain and with builders, with non-integer hourly inputs) after edit histories, every object is recomputed alone in random order, random subsets in random orders, the whole chain and system.after_init() again: the calculated observation must not move. Then every value is read, printed and explained, the system exported in both modes and plotted (Agg / plotly html): the physical digest of every input must be unchanged and a last full recomputation must reproduce the same results.",
 "note": TB + "plots that raise on degenerate models (no server, all-zero traffic) are counted, not alarmed; recomputation requests are per object / subset / whole system as in the statement (single update rules are an internal API)",
}
CHECKS["C14"] = {
 "level": "fault_enumeration",
 "technique": "runtime monitoring: complete enumeration of (class x parameter x invalid kind x context) with an exception/state-unchanged monitor",
 "text": "Every constructor parameter of every public class is given every kind of invalid value its type admits (wrong dimension incl. zero magnitude, negative, bare number, string object, series for scalar and scalar for series, value outside the declared list, quantity for categorical, wrong-class list element, non-list, wrong-class link, forbidden fixed count) at construction, by assignment on a computed model containing every class, inside a grouped update next to a valid change, and inside the same update as a dated what-if; an exception must be raised and, for the three edit contexts, the full observation (inputs, links, calculated values with object identity, id-level graph) must be unchanged. The space is finite and enumerated completely (~1750 inputs per model); thorough repeats it at later points of edit histories of 4 models.",
 "note": TB + "'negative' applies to scalar quantity parameters not listed in attributes_that_can_have_negative_values; 'outside the list' to parameters that declare list_values / conditional_list_values (Country.timezone is free-form); known finding F19 (wrong-class links accepted at construction)",
}
CHECKS["C15"] = {
 "level": "fault_enumeration",
 "technique": "runtime monitoring: fault sequences with real triggers at every raising update function inside edit histories; full-state comparison after each raise, rebuild-from-spec oracle on the edits that follow",
 "text": "Histories mix ordinary edits with edits (single, grouped, dated what-ifs) built to make recomputation fail at each raising site (capacity, fixed server / storage count, negative storage ledger, failure in the middle of a per-pattern dict update), repeated up to 3 times in a row. After each raise, and after re-assigning the previous value, the observation (values, links, id-level graph) must equal the pre-failure one; the following edits, biased towards the inputs involved, are compared with a fresh build after every edit.",
 "note": TB + "the raising sites are enumerated (every update function that can raise has a generator of real triggers), systems and positions are sampled; known finding F3 shared with C01",
}
CHECKS["C10"] = {
 "level": "exploration",
 "technique": "runtime monitoring: metamorphic differential - the same model with one input re-expressed in another unit, by rebuild and by live re-assignment",
 "text": "Every quantity-valued constructor parameter of every object of a model containing all classes (found by signature introspection, so a new parameter is picked up automatically) is re-expressed in up to 3 other units of the same dimension; the rebuilt model and the live model after re-assignment must have physically equal calculated slots; an edit to the same number in another unit (and to another number in another unit) must equal a rebuild with that input. Parameters are marked influential when a x1.37 perturbation changes the model.",
 "note": TB + "in this unit registry bytes are dimensionless, so data volumes are also re-expressed as bit / percent / dimensionless; comparisons at a floating-point ceil boundary are skipped and counted",
}
CHECKS["C12"] = {
 "level": "exploration",
 "technique": "runtime monitoring: metamorphic differential with a factor table derived from the harness' own record of the links (scale / inverse scale / affine / unchanged)",
 "text": "On generated sharing-heavy systems each cost driver of each object is multiplied by k in {0.5, 2, 3.7} (all traffic in one grouped update); from its own link record the monitor derives for every energy / fabrication footprint slot whether it must be multiplied by k or 1/k hour by hour (sole contributor), be affine in the factor (one of several contributors, checked with two factors) or stay unchanged, on a rebuilt system and after the live edit.",
 "note": TB + "drivers and the slots they drive are those named in the property statement; total_footprint (rounded) is covered through its components (C02)",
}
CHECKS["C13"] = {
 "level": "exploration",
 "technique": "runtime monitoring: round-trip differential through json.dumps/loads (objects, links, inputs, results, re-export, edits on the loaded system, synthesised v9 file)",
 "text": "Generated systems (plain and with all builder classes, shared and repeated objects, several zones, non-integer hourly inputs), half of them after edit histories, are saved in both modes and loaded back; object set, ids, classes, links (order and multiplicity), labels, sources and input values are compared, recomputed results must equal the original's, re-export must equal the export, edits on the loaded system are checked against a rebuild from the spec, and the file rewritten as a version-9 file (Device -> Hardware) must load to the same model.",
 "note": TB + "hourly inputs are compared up to the documented 3-decimal rounding (results up to the effect of that rounding); ids of objects that an edit history disconnected from the system are not in the file and are left out of the edge-list comparison",
}
CHECKS["C19"] = {
 "level": "exploration",
 "technique": "runtime monitoring: differential across builds and across interpreter processes started with different PYTHONHASHSEED",
 "text": "Each generated spec is built under several creation orders, permutations of order-irrelevant lists (system patterns, pattern devices, jobs of a step) and identifier seeds in each of 4 (quick) / 8 (thorough) interpreter processes with different hash seeds, half of them followed by the same edit history; all observations of one spec must be numerically equal.",
 "note": TB + "specs whose ceil arguments sit on a floating-point boundary are pre-filtered and counted",
}
