#!/bin/bash
# tools/seed_verify.sh <seeded dir containing patch.diff demo.py> : confirms in a scratch worktree of /repo HEAD that
# the patch applies, the pinned suite still passes with it, the demo fails with it and passes without it.
D=$(realpath "$1"); ID=$(basename "$D"); WT=/tmp/sw/verify-$ID
mkdir -p /tmp/sw; git -C /repo worktree remove --force $WT 2>/dev/null; rm -rf $WT
git -C /repo worktree add -q --detach $WT HEAD || exit 9
cd $WT
cp $D/demo.py $WT/.demo.py; export VERIF_REPO=$WT
/venv/bin/python .demo.py > .demo_clean.log 2>&1; clean=$?
if ! git apply $D/patch.diff 2> .apply.log; then echo "$ID APPLY-FAILED $(head -c 200 .apply.log)"; cd /; git -C /repo worktree remove --force $WT; exit 3; fi
/venv/bin/python .demo.py > .demo_patched.log 2>&1; patched=$?
base=$(/tmp/wt/tools/baseline.sh $WT | head -1)
echo "$ID demo_clean=$clean demo_patched=$patched baseline: $base"
cd /; git -C /repo worktree remove --force $WT
