#!/bin/bash
# quick sweep (seeds 0 1 2), thorough batch, own-check matrix: one after the other (each uses all cores)
cd "$(dirname "$0")/.."
echo "== sweep"; tools/sweep.sh quick 0 1 2
echo "== thorough"; tools/run_all.sh thorough
echo "== matrix"; tools/matrix_own.sh
echo "== done"
