#!/bin/bash
# tools/seed_run.sh <seeded dir> <check id> [tier] : runs a check against a scratch worktree of /repo HEAD + the seeded patch.
D=$(realpath "$1"); ID=$(basename "$D"); P=$2; TIER=${3:-quick}; WT=/tmp/sw/run-$ID-$P
mkdir -p /tmp/sw; git -C /repo worktree remove --force $WT 2>/dev/null; rm -rf $WT
git -C /repo worktree add -q --detach $WT HEAD || exit 9
git -C $WT apply $D/patch.diff || { echo "$ID apply failed"; git -C /repo worktree remove --force $WT; exit 3; }
cd "$(dirname "$0")/.."
VERIF_REPO=$WT VERIF_NO_EVIDENCE=1 VERIF_REPLAY_DIR=/tmp/sw/replays ./check $P --tier $TIER > /tmp/sw/$ID-$P${VERIF_SEED:+.s$VERIF_SEED}.log 2>&1; rc=$?
echo "$ID $P exit=$rc $(grep -c "^VIOLATION" /tmp/sw/$ID-$P${VERIF_SEED:+.s$VERIF_SEED}.log) violation lines; $(grep -m1 "^INCONCLUSIVE" /tmp/sw/$ID-$P${VERIF_SEED:+.s$VERIF_SEED}.log | head -c 200)"
git -C /repo worktree remove --force $WT
exit $rc
