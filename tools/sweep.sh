#!/bin/bash
# tools/sweep.sh <tier> <seed>... : every check under each VERIF_SEED; prints the runs that did not exit 0
cd "$(dirname "$0")/.."
TIER=$1; shift
for seed in "$@"; do
  for i in 01 02 03 04 05 06 07 08 09 10 11 12 13 14 15 16 17 18 19 20; do
    VERIF_SEED=$seed VERIF_NO_EVIDENCE=1 VERIF_REPLAY_DIR=/tmp/sw/sweep_replays ./check C$i --tier $TIER > /tmp/sw/sweep_${TIER}_${seed}_C$i.log 2>&1; rc=$?
    [ $rc -ne 0 ] && echo "seed=$seed C$i exit=$rc $(grep -m1 '^INCONCLUSIVE' /tmp/sw/sweep_${TIER}_${seed}_C$i.log | cut -c1-220) $(grep -c '^VIOLATION' /tmp/sw/sweep_${TIER}_${seed}_C$i.log) violations"
  done
  echo "seed=$seed done"
done
