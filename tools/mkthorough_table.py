#!/venv/bin/python
"""tools/mkthorough_table.py <evidence dir of a thorough batch> : refreshes the THOROUGH-TABLE block of DESIGN.md"""
import json, glob, os, re, sys
HERE = os.path.dirname(os.path.dirname(os.path.abspath(__file__)))
rows = []
for f in sorted(glob.glob(os.path.join(sys.argv[1], "C*.json"))):
    d = json.load(open(f)); c = d["coverage"]
    if d["tier"] != "thorough":
        continue
    lr = c.get("library_reach", {})
    mon = ", ".join(f"{k} {v}" for k, v in sorted(c.get("monitor_evaluations", {}).items(), key=lambda kv: -kv[1])[:4])
    rows.append(f"| {d['property_id']} | {d['tier']} / {d['seed']} | {c['evaluations']} | {c['distinct_nontrivial']} | {d['wall_s']:.0f} s | "
                f"{lr.get('anchored_functions_executed', '?')} / {lr.get('anchored_functions_defined', '?')} | {mon} |")
head = ("| id | tier / seed | cases | distinct non-trivial | wall | anchored functions executed | deciding-monitor evaluations (top 4) |\n"
        "|----|----|----|----|----|----|----|\n")
p = os.path.join(HERE, "DESIGN.md")
s = open(p).read()
s = re.sub(r"<!-- THOROUGH-TABLE-BEGIN -->.*?<!-- THOROUGH-TABLE-END -->", "<!-- THOROUGH-TABLE-BEGIN -->\n" + head + "\n".join(rows) + "\n<!-- THOROUGH-TABLE-END -->", s, flags=re.S)
open(p, "w").write(s)
print(len(rows), "rows")
