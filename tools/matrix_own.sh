#!/bin/bash
# tools/matrix_own.sh [glob] : runs, for every seeded change, the quick tier of the check of the property it was written against
# (scratch worktree + VERIF_REPO, see tools/seed_run.sh); logs under /tmp/sw, collected by tools/mkmatrix.py
cd "$(dirname "$0")/.."
G=${1:-"seeded/C*-?"}
for d in $G; do id=$(basename $d); echo "$d C${id:1:2}"; done | VERIF_NPROC=${VERIF_NPROC:-8} xargs -P 2 -L 1 tools/seed_run.sh
