#!/bin/bash
# Runs the repository's pinned test suite (guard OFF) and compares against BASELINE.json stable_pass.
REPO=${1:-/repo}
OUT=$(mktemp /tmp/junit.XXXXXX.xml)
cd "$REPO" && env -u EFOOTPRINT_VERIF /venv/bin/python -m pytest -ra -q -p no:cacheprovider --timeout=900 --continue-on-collection-errors --junitxml=$OUT >/tmp/baseline_pytest.log 2>&1
/venv/bin/python - "$OUT" <<'PY'
import sys, json, xml.etree.ElementTree as ET
base = json.load(open('/root/.vp/BASELINE.json'))
stable = set(base['stable_pass'])
t = ET.parse(sys.argv[1]).getroot()
passed = set()
for tc in t.iter('testcase'):
    if not any(c.tag in ('failure','error','skipped') for c in tc):
        passed.add(f"{tc.get('classname')}::{tc.get('name')}")
missing = sorted(stable - passed)
print(f"stable={len(stable)} passed_of_stable={len(stable & passed)} missing={len(missing)}")
for m in missing[:40]: print("  MISSING", m)
sys.exit(1 if missing else 0)
PY
rc=$?
rm -f $OUT
exit $rc
