#!/bin/bash
# tools/run_all.sh [tier] : runs every registered check once on /repo, prints one line per check
cd "$(dirname "$0")/.."
TIER=${1:-quick}
for i in 01 02 03 04 05 06 07 08 09 10 11 12 13 14 15 16 17 18 19 20; do
  s=$(date +%s); ./check C$i --tier $TIER > /tmp/runall_C$i.log 2>&1; rc=$?; e=$(date +%s)
  echo "C$i exit=$rc $((e-s))s $(grep -c '^VIOLATION' /tmp/runall_C$i.log) violations $(grep -c '^KNOWN-FINDING' /tmp/runall_C$i.log) known $(grep -m1 '^INCONCLUSIVE' /tmp/runall_C$i.log | cut -c1-200)"
done
