#!/bin/bash
# Offline setup: nothing to build or install (the harness is pure Python and uses only /venv's packages).
cd "$(dirname "$0")/.." && mkdir -p evidence replays && /venv/bin/python -c "import sys; sys.path.insert(0,'.'); import vf.env" && echo setup ok
