#!/venv/bin/python
"""Regenerates MANIFEST.json from the table below (keeps it schema-valid at all times)."""
import json, os, sys
HERE = os.path.dirname(os.path.dirname(os.path.abspath(__file__)))
props = [json.loads(l) for l in open(os.path.join(HERE, "properties.jsonl"))]
CHECKS = {}
exec(open(os.path.join(HERE, "tools", "checks_table.py")).read())
checks, na = [], []
for p in props:
    pid = p["id"]
    if pid in CHECKS:
        c = CHECKS[pid]
        checks.append({
            "property_id": pid,
            "quick_cmd": f"./check {pid} --tier quick",
            "thorough_cmd": f"./check {pid} --tier thorough",
            "evidence_file": f"evidence/{pid}.json",
            "replay_cmd_template": f"./check {pid} --replay {{path}}",
            "engine": "vf",
            "level_claimed": {"category": c["level"], "text": c["text"], "design_ref": f"DESIGN.md §3 {pid}"},
            "level_note": c["note"],
            "technique": c["technique"],
        })
    else:
        na.append({"property_id": pid, "reason": "check not built yet in this session (design in DESIGN.md §3); not claimed until its monitor exists and has been run"})
m = {
    "version": 1,
    "setup_cmd": "./tools/setup.sh",
    "hooks": {"guard": "EFOOTPRINT_VERIF", "enable": "none needed: all instrumentation is applied from outside at import time by vf/ (wrappers, contracts, read-trace); no guarded source hook exists in /repo",
              "baseline_off_cmd": "cd /repo && /venv/bin/python -m pytest -ra -q -p no:cacheprovider --timeout=900 --continue-on-collection-errors",
              "source_commits": [], "add_only": True},
    "engines": [{"name": "vf", "path": "vf/", "serves_properties": sorted(CHECKS), "kind_free_text": "runtime monitoring harness: generated workloads on the real library, reference-model / differential / invariant / contract monitors, fork pool"}],
    "checks": checks,
    "notes": "Runtime monitoring of the real library imported from /repo's working tree (VERIF_REPO overrides). exit 0 held / 1 VIOLATION / 2 INCONCLUSIVE. Known findings: known_findings.json.",
    "not_applicable": na,
}
json.dump(m, open(os.path.join(HERE, "MANIFEST.json"), "w"), indent=1)
print("checks:", len(checks), "not claimed:", len(na))
