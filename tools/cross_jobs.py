#!/venv/bin/python
"""prints 'seeded/<id> <check>' lines: every seeded change against the checks of related properties (besides its own)"""
import os
REL = {
 "C01": ["C08", "C13", "C15", "C03", "C12", "C19"], "C02": ["C01", "C15", "C12"], "C03": ["C01", "C07", "C09", "C19"], "C04": ["C01", "C08", "C07", "C18"],
 "C05": ["C06", "C08", "C14", "C15"], "C06": ["C05", "C08"], "C07": ["C09", "C03", "C01", "C18"], "C08": ["C01", "C05", "C15"],
 "C09": ["C07", "C03", "C04", "C10"], "C10": ["C01", "C09", "C03"], "C11": ["C03", "C06", "C02"], "C12": ["C01", "C02", "C08"],
 "C13": ["C17", "C10", "C01"], "C14": ["C05", "C15", "C10"], "C15": ["C05", "C08", "C01", "C02"], "C16": ["C01", "C15", "C05"],
 "C17": ["C01", "C08", "C10"], "C18": ["C13", "C07", "C01", "C04"], "C19": ["C02", "C03", "C01"], "C20": ["C03"],
}
for d in sorted(os.listdir("/verif/seeded")):
    if len(d) == 5 and d[3] == "-":
        for c in REL[d[:3]]:
            print(f"seeded/{d} {c}")
