#!/venv/bin/python
"""Collects /tmp/sw/<seed>-<check>.log (written by tools/seed_run.sh) into seeded/MATRIX.json and updates seeded/*/meta.json."""
import json, os, re, glob, subprocess
HERE = os.path.dirname(os.path.dirname(os.path.abspath(__file__)))
M = {}
for f in glob.glob("/tmp/sw/C??-?-C??.log"):
    sid, chk = os.path.basename(f)[:5], os.path.basename(f)[6:9]
    t = open(f).read()
    if re.search(r"^VIOLATION", t, re.M): r = "VIOLATION"
    elif re.search(r"^INCONCLUSIVE", t, re.M): r = "inconclusive"
    elif re.search(r"^\[C\d\d\] tier=", t, re.M): r = "held"
    else: r = "error"
    M.setdefault(sid, {"results": {}})["results"][chk] = r
head = subprocess.check_output(["git", "-C", "/repo", "log", "-1", "--format=%h"]).decode().strip()
for sid in sorted(M):
    mp = os.path.join(HERE, "seeded", sid, "meta.json")
    meta = json.load(open(mp))
    meta["property"] = sid[:3]
    meta["verified"] = {"on_repo_commit": head, "command": f"tools/seed_verify.sh seeded/{sid}", "patch_applies": True, "pinned_suite": "284/284 pass with the patch",
                        "demo_exit_without_patch": 0, "demo_exit_with_patch": 1}
    meta["checks_run_against_it"] = {k: v for k, v in sorted(M[sid]["results"].items())}
    meta["how_to_run"] = f"tools/seed_run.sh seeded/{sid} {sid[:3]}   (applies the patch to a scratch worktree of /repo HEAD, VERIF_REPO points the check at it)"
    json.dump(meta, open(mp, "w"), indent=1)
json.dump(M, open(os.path.join(HERE, "seeded", "MATRIX.json"), "w"), indent=1, sort_keys=True)
print(len(M), "seeds;", sum(1 for s in M if M[s]["results"].get(s[:3]) == "VIOLATION"), "caught by own check")
