"""./check <ID> [--tier quick|thorough] [--replay file]: run one property check, write evidence, print the verdict.

exit 0  held on everything explored (KNOWN-FINDING lines printed for listed open findings)
exit 1  VIOLATION property=<id> replay=<path>     (a violation that known_findings.json does not list)
exit 2  INCONCLUSIVE property=<id> reason=...      (a deciding monitor never ran, a required class was never generated ...)
"""
import sys, os, json, time, argparse, importlib, hashlib, collections, traceback

VERIF = os.path.dirname(os.path.dirname(os.path.abspath(__file__)))


def load_known():
    p = os.path.join(VERIF, "known_findings.json")
    if os.path.exists(p):
        return json.load(open(p))
    return {"open": [], "fixed": []}


def main(argv=None):
    ap = argparse.ArgumentParser()
    ap.add_argument("prop")
    ap.add_argument("--tier", default=os.environ.get("VERIF_TIER", "quick"), choices=["quick", "thorough"])
    ap.add_argument("--replay", default=None)
    ap.add_argument("--cases", type=int, default=None, help="override the number of cases (debugging)")
    ap.add_argument("--only", type=int, default=None, help="run only case index i (debugging)")
    a = ap.parse_args(argv)
    pid = a.prop.upper()
    seed = int(os.environ.get("VERIF_SEED", "0"))
    t0 = time.time()
    from . import env, pool
    mod = importlib.import_module(f"vf.props.{pid.lower()}")
    E = env.load()
    if hasattr(mod, "setup"):
        mod.setup(a.tier)

    if a.replay:
        rp = json.load(open(a.replay))
        cases = [rp["case"]]
    else:
        cases = mod.cases(a.tier, seed)
        if a.cases:
            cases = cases[:a.cases]
        if a.only is not None:
            cases = [cases[a.only]]
    budget = getattr(mod, "BUDGET", {"quick": 240, "thorough": 1800})[a.tier]
    per_case = getattr(mod, "PER_CASE_TIMEOUT", {"quick": 120, "thorough": 300})[a.tier]
    recs = pool.run_cases(cases, mod.run_case, per_case_timeout=per_case, wall_budget=budget)

    known = load_known()
    open_for_prop = [f for f in known.get("open", []) if pid in f.get("properties", [f.get("property")])]
    counters = collections.Counter()
    classes = collections.Counter()
    status = collections.Counter()
    digests = set()
    samples = []
    violations, known_hits = [], collections.Counter()
    harness_errors = []
    for rec, case in zip(recs, cases):
        status[rec["status"]] += 1
        r = rec["result"] or {}
        if rec["status"] == "error":
            harness_errors.append({"case": rec["i"], "trace": r.get("harness_error", "")})
            continue
        for k, v in (r.get("counters") or {}).items():
            counters[k] += v
        for c in r.get("classes") or []:
            classes[c] += 1
        if r.get("nontrivial") and r.get("digest"):
            digests.add(r["digest"])
        if r.get("sample") is not None and len(samples) < 4:
            samples.append(r["sample"])
        for v in r.get("violations") or []:
            fid = None
            for f in open_for_prop:
                if f.get("mechanism") and f["mechanism"] == v.get("mechanism"):
                    fid = f["id"]
            if fid:
                known_hits[fid] += 1
            else:
                violations.append((rec["i"], case, v))

    # directed witnesses of the open known findings
    kf_lines = []
    for f in open_for_prop:
        reproduced = None
        if hasattr(mod, "witness"):
            try:
                reproduced = mod.witness(f["id"])
            except Exception:
                reproduced = None
        if reproduced is False:
            kf_lines.append(f"NOTE: known finding {f['id']} of property={pid} did not reproduce on this tree")
        else:
            kf_lines.append(f"KNOWN-FINDING: property={pid} {f['id']}: {f['what']}")

    req = mod.requirements(a.tier) if hasattr(mod, "requirements") else {}
    reasons = []
    if not a.replay and a.only is None and not a.cases:
        # the figures in requirements() are what a run typically reaches; the gate is 60 % of them, so that the ordinary
        # run-to-run variation of a seeded workload never turns a healthy run into an inconclusive one, while a monitor that
        # is (almost) never reached still does
        for k, n in (req.get("min_counters") or {}).items():
            gate = int(n * 0.6)
            if counters.get(k, 0) < gate:
                reasons.append(f"monitor {k} evaluated {counters.get(k, 0)} < {gate} times")
        for c in req.get("required_classes") or []:
            if classes.get(c, 0) < 1:
                reasons.append(f"class {c} never generated")
        bad = status["timeout"] + status["crashed"] + status["not_run"]
        if bad > max(2, 0.2 * len(cases)):
            reasons.append(f"{bad}/{len(cases)} cases timed out / crashed / were not run")
    if harness_errors:
        reasons.append(f"{len(harness_errors)} harness errors (first: {harness_errors[0]['trace'][-400:]!r})")

    wall = round(time.time() - t0, 2)
    rule = getattr(mod, "RULE", "")
    if not samples:
        samples = [{"note": "no sample recorded"}]
    ev = {
        "property_id": pid, "tier": a.tier, "seed": seed, "level": getattr(mod, "LEVEL", "exploration"),
        "coverage": {
            "evaluations": status["ok"], "distinct_nontrivial": len(digests), "rule": rule, "samples": samples,
            "monitor_evaluations": dict(counters), "classes_hit": dict(classes), "case_status": dict(status),
            "known_findings_hit": dict(known_hits), "cases_generated": len(cases),
            "hash_seed": os.environ.get("PYTHONHASHSEED"), "repo": env.REPO,
        },
        "assumptions": getattr(mod, "ASSUMPTIONS", []) + ["pandas/pint/pint-pandas/numpy/pytz and the packaged Boavizta / EcoLogits / ecobenchmark data are the trusted base",
                                                        "held on the executions reported here, not a proof"],
        "wall_s": wall, "violations": len(violations),
    }
    # which functions of the files the property is anchored in did the workload execute (sys.monitoring, see reach.py)
    try:
        from . import reach
        prop = next(json.loads(l) for l in open(os.path.join(VERIF, "properties.jsonl")) if json.loads(l)["id"] == pid)
        ev["coverage"]["library_reach"] = reach.report(env.REPO, prop["anchors"], pool.REACHED)
        if not a.replay and a.only is None and not a.cases and hasattr(sys, "monitoring") and ev["coverage"]["library_reach"]["anchored_functions_executed"] == 0:
            reasons.append("no function of the files the property is anchored in was executed by the workload")
    except Exception as e:
        ev["coverage"]["library_reach"] = {"error": f"{type(e).__name__}: {e}"}
    if getattr(mod, "EXHAUSTIVE", False):
        ev["coverage"]["exhaustive"] = True
    if hasattr(mod, "extra_evidence"):
        ev["coverage"].update(mod.extra_evidence(recs, cases))
    if reasons:
        ev["coverage"]["inconclusive_reasons"] = reasons
    if not a.replay and a.only is None and not os.environ.get("VERIF_NO_EVIDENCE"):
        os.makedirs(os.path.join(VERIF, "evidence"), exist_ok=True)
        with open(os.path.join(VERIF, "evidence", f"{pid}.json"), "w") as f:
            json.dump(pool.jsonable(ev), f, indent=1)

    for l in kf_lines:
        print(l)
    print(f"[{pid}] tier={a.tier} seed={seed} cases={len(cases)} status={dict(status)} distinct_nontrivial={len(digests)} "
          f"monitors={dict(counters)} known_hits={dict(known_hits)} wall={wall}s")
    if violations:
        rdir = os.environ.get("VERIF_REPLAY_DIR") or os.path.join(VERIF, "replays")
        os.makedirs(rdir, exist_ok=True)
        shown = set()
        for i, case, v in violations[:5]:
            path = os.path.join(rdir, f"{pid}-{seed}-{i}.json")
            if path not in shown:
                with open(path, "w") as f:
                    json.dump(pool.jsonable({"property": pid, "tier": a.tier, "seed": seed, "case_index": i, "case": case,
                                             "violations": [vv for ii, _, vv in violations if ii == i],
                                             "hash_seed": os.environ.get("PYTHONHASHSEED")}), f, indent=1)
                shown.add(path)
            print(f"VIOLATION property={pid} replay={path}")
            print("   ", json.dumps(pool.jsonable(v))[:1500])
        return 1
    if reasons:
        print(f"INCONCLUSIVE property={pid} reason=" + "; ".join(reasons))
        return 2
    return 0


if __name__ == "__main__":
    sys.exit(main())
