"""Observation of a live model and comparison rules (DESIGN.md §2.5)."""
import hashlib, math
import numpy as np
from . import env

RTOL = 1e-9
TOTAL_FOOTPRINT_ATOL = 5e-5   # System.total_footprint is rounded to 4 decimals by the library (kg per hour)

BOOKKEEPING = ("previous_change", "all_changes", "simulation", "previous_total_energy_footprints_sum_over_period",
               "previous_total_fabrication_footprints_sum_over_period", "initial_total_energy_footprints_sum_over_period",
               "initial_total_fabrication_footprints_sum_over_period")
INTERNAL = ("contextual_modeling_obj_containers", "trigger_modeling_updates", "name", "id", "impact_url")


def all_objects(system):
    seen, out = set(), []
    for o in [system] + list(system.all_linked_objects):
        raw = getattr(o, "_value", o)
        if id(raw) not in seen:
            seen.add(id(raw)); out.append(raw)
    return out


def vrepr(v):
    """physical representation of a library value: base units, timestamps as int64 ns"""
    E = env.load()
    if isinstance(v, E.EmptyExplainableObject):
        return ("empty",)
    if isinstance(v, E.ExplainableHourlyQuantities):
        s = v.value["value"].pint.to_base_units()
        idx = v.value.index
        return ("h", str(s.pint.units.dimensionality), idx.tz is not None, tuple(idx.asi8.tolist()),
                np.asarray(s.values._data, dtype=float).copy())
    if isinstance(v, E.ExplainableQuantity):
        qb = v.value.to_base_units()
        return ("q", str(qb.units.dimensionality), float(qb.magnitude))
    if isinstance(v, E.ExplainableObject):
        val = v.value
        if getattr(val, "zone", None):
            return ("o", "tz:" + val.zone)
        if isinstance(val, dict):
            return ("o", "dict:" + hashlib.md5(repr(sorted(val.keys())).encode()).hexdigest()[:8])
        return ("o", repr(val)[:80])
    return ("?", repr(v)[:80])


def keyname(k):
    return getattr(k, "name", k)


def snapshot(system, inputs=False, objs=None):
    """{(object name, attribute[, dict key]): vrepr} for the calculated attributes (and inputs) of every object"""
    E = env.load()
    out = {}
    for o in (objs if objs is not None else all_objects(system)):
        calc = list(o.calculated_attributes)
        names = calc if not inputs else [k for k in o.__dict__ if k not in INTERNAL and k not in BOOKKEEPING]
        for a in names:
            v = o.__dict__.get(a)
            if isinstance(v, E.ExplainableObjectDict):
                out[(o.name, a)] = ("d", tuple(sorted(str(keyname(k)) for k in v)))
                for k, x in v.items():
                    out[(o.name, a, str(keyname(k)))] = vrepr(x)
            elif isinstance(v, E.ExplainableObject):
                out[(o.name, a)] = vrepr(v)
            elif inputs and isinstance(v, E.ContextualModelingObjectAttribute):
                out[(o.name, a)] = ("link", v.name)
            elif inputs and isinstance(v, list):
                out[(o.name, a)] = ("links", tuple(x.name for x in v))
            elif inputs and (v is None or isinstance(v, str)):
                out[(o.name, a)] = ("raw", v)
    return out


def _is_zero(r):
    return r[0] == "empty" or (r[0] == "h" and not np.any(r[4])) or (r[0] == "q" and r[2] == 0)


def close(a, b, rtol=RTOL, atol=0.0, scale=None):
    """numerical equality of two vrepr; empty == all-zero series == absent"""
    if a is None or b is None:
        other = b if a is None else a
        return other is None or _is_zero(other) or other[0] == "d"
    if a[0] == "empty" or b[0] == "empty":
        return _is_zero(a) and _is_zero(b)
    if a[0] != b[0]:
        return False
    if a[0] == "q":
        if not (math.isfinite(a[2]) and math.isfinite(b[2])):
            return a[1] == b[1] and (a[2] == b[2] or (math.isnan(a[2]) and math.isnan(b[2])))     # the same infinity / both undefined
        return a[1] == b[1] and abs(a[2] - b[2]) <= atol + rtol * max(abs(a[2]), abs(b[2]), scale or 0.0)
    if a[0] == "h":
        if a[1] != b[1] or a[2] != b[2]:
            return False
        if a[3] != b[3]:
            # timestamps differ: compare on the union, a missing hour counting as zero
            da, db = dict(zip(a[3], a[4])), dict(zip(b[3], b[4]))
            m = max([abs(x) for x in a[4]] + [abs(x) for x in b[4]] + [scale or 0.0])
            return all(abs(da.get(t, 0.0) - db.get(t, 0.0)) <= atol + rtol * m for t in set(da) | set(db))
        fa, fb = np.isfinite(a[4]), np.isfinite(b[4])
        if not (fa.all() and fb.all()):
            # degenerate models publish infinities (zero available capacity): the same infinity / both undefined at the same hours,
            # the finite hours compared as usual
            if not np.array_equal(fa, fb):
                return False
            xa, xb = a[4][~fa], b[4][~fb]
            if not np.all((xa == xb) | (np.isnan(xa) & np.isnan(xb))):
                return False
            a4, b4 = a[4][fa], b[4][fb]
        else:
            a4, b4 = a[4], b[4]
        m = max(float(np.max(np.abs(a4))) if len(a4) else 0.0, float(np.max(np.abs(b4))) if len(b4) else 0.0, scale or 0.0)
        return bool(np.all(np.abs(a4 - b4) <= atol + rtol * m))
    if a[0] == "d":
        return True   # key sets are compared through the entries (empty == absent)
    return a == b


def slot_atol(key):
    return TOTAL_FOOTPRINT_ATOL if key[1] == "total_footprint" else 0.0


def diff(s1, s2, rtol=RTOL, scale_of=None):
    """slots that differ between two snapshots (numerically)"""
    out = []
    for k in sorted(set(s1) | set(s2), key=str):
        a, b = s1.get(k), s2.get(k)
        sc = scale_of(k) if scale_of else None
        if not close(a, b, rtol=rtol, atol=slot_atol(k), scale=sc):
            out.append(k)
    return out


def describe(r):
    if r is None:
        return "absent"
    if r[0] == "h":
        return f"h[{len(r[4])}] {r[1]} sum={float(np.sum(r[4])):.12g} first={list(np.round(r[4][:4], 9))}"
    return str(r)[:120]


def explain_diff(s1, s2, keys, n=6):
    return [{"slot": list(map(str, k)), "live": describe(s1.get(k)), "ref": describe(s2.get(k))} for k in keys[:n]]


def digest(snap):
    h = hashlib.md5()
    for k in sorted(snap, key=str):
        r = snap[k]
        h.update(str(k).encode())
        if r[0] == "h":
            h.update(str(r[3][:1]).encode()); h.update(np.round(r[4], 6).tobytes())
        elif r[0] == "q":
            h.update(f"{r[2]:.9g}".encode())
        else:
            h.update(str(r).encode())
    return h.hexdigest()[:16]


# ---- boundary ambiguity: ceil/floor/max arguments close to a discontinuity --------------------------------------------
def near_integer(x, eps=1e-6):
    return abs(x - round(x)) < eps * max(1.0, abs(x)) and x != round(x) or False


def ceil_boundary_ambiguous(system):
    """True when some raw instance count (the argument of a ceil) sits within 1e-9 (relative) of an integer without being one:
    differential oracles skip such cases (floating point decides the ceiling)."""
    E = env.load()
    for o in all_objects(system):
        v = o.__dict__.get("raw_nb_of_instances")
        if isinstance(v, E.ExplainableHourlyQuantities):
            arr = np.asarray(v.value["value"].values._data, dtype=float)
            r = np.round(arr)
            amb = (np.abs(arr - r) < np.maximum(1e-9, 1e-11 * np.abs(arr))) & (arr != r)
            if np.any(amb):
                return True
            # a user-fixed count that equals the peak need to within the same tolerance: whether "need <= count" holds is decided by
            # floating point (an exactly integral need included: any rebuild may land a hair above it)
            fx = o.__dict__.get("fixed_nb_of_instances")
            if isinstance(fx, E.ExplainableQuantity) and len(arr) and np.all(np.isfinite(arr)):
                F = float(fx.value.to("dimensionless").magnitude); mx = float(np.max(arr))
                if abs(mx - F) < max(1e-9, 1e-11 * abs(F)):
                    return True
    return False


# ---- identity level observation (C05, C14, C15) -------------------------------------------------------------------------
def _sid(x):
    try:
        return x.id
    except Exception:
        return "DETACHED"


def graph_of(v):
    """id-level edges of an attached value"""
    return (tuple(sorted(set(_sid(a) for a in v.direct_ancestors_with_id))),
            tuple(sorted(set(_sid(c) for c in v.direct_children_with_id))))


def full_state(system, identity=True, graph=True, objs=None):
    """{slot: (kind, identity, value, id-level graph)} for every attribute of every object (bookkeeping excluded)"""
    E = env.load()
    st = {}

    def unit_of(v):
        # with identity: the very same objects, hence also expressed in the same unit as before (an in-place .to() is a visible change)
        if not identity:
            return ""
        try:
            return str(v.unit) if isinstance(v, E.ExplainableHourlyQuantities) else (str(v.value.units) if isinstance(v, E.ExplainableQuantity) else "")
        except Exception:
            return "?"
    for o in (objs if objs is not None else all_objects(system)):
        try:
            # the reverse look-up (who references me), as a user reads it
            st[(o.name, "<referenced by>")] = ("raw", 0, tuple(sorted(c.name for c in o.modeling_obj_containers)))
        except Exception as e:
            st[(o.name, "<referenced by>")] = ("raw", 0, f"raised {type(e).__name__}")
        for k, v in o.__dict__.items():
            if k in INTERNAL or k in BOOKKEEPING:
                continue
            if isinstance(v, E.ExplainableObjectDict):
                st[(o.name, k)] = ("dict", id(v) if identity else 0, tuple(sorted(str(keyname(kk)) for kk in v)))
                for kk, vv in v.items():
                    st[(o.name, k, str(keyname(kk)))] = ("val", id(vv) if identity else 0, vrepr(vv), graph_of(vv) if graph else None,
                                                         (vv.modeling_obj_container.name if vv.modeling_obj_container is not None else None, vv.attr_name_in_mod_obj_container),
                                                         unit_of(vv))
            elif isinstance(v, list):
                st[(o.name, k)] = ("list", id(v) if identity else 0, tuple(x.name for x in v),
                                   v.modeling_obj_container.name if getattr(v, "modeling_obj_container", None) is not None else None)
            elif isinstance(v, E.ExplainableObject):
                st[(o.name, k)] = ("val", id(v) if identity else 0, vrepr(v), graph_of(v) if graph else None,
                                   (v.modeling_obj_container.name if v.modeling_obj_container is not None else None, v.attr_name_in_mod_obj_container),
                                   unit_of(v))
            elif isinstance(v, E.ContextualModelingObjectAttribute):
                st[(o.name, k)] = ("obj", id(v) if identity else 0, v.name)
            elif isinstance(v, E.ModelingObject):
                st[(o.name, k)] = ("rawobj", 0, v.name)
            elif v is None or isinstance(v, (str, int, float)):
                st[(o.name, k)] = ("raw", 0, v)
            else:
                st[(o.name, k)] = ("other", 0, type(v).__name__)
    return st


def _eq_entry(a, b):
    if a is None or b is None:
        return False
    if a[0] != b[0] or len(a) != len(b):
        return False
    for x, y in zip(a[1:], b[1:]):
        if isinstance(x, tuple) and x and x[0] in ("h", "q", "empty", "o", "?"):
            if x[0] != y[0]:
                return False
            if x[0] == "h":
                if x[1:4] != y[1:4] or not np.array_equal(x[4], y[4]):
                    return False
            elif x != y:
                return False
        elif x != y:
            return False
    return True


def state_diff(a, b):
    return [k for k in sorted(set(a) | set(b), key=str) if not _eq_entry(a.get(k), b.get(k))]


def explain_state_diff(a, b, keys, n=6):
    out = []
    for k in keys[:n]:
        x, y = a.get(k), b.get(k)
        what = []
        if x is None or y is None:
            what.append("slot appeared" if x is None else "slot disappeared")
        else:
            if x[0] != y[0]:
                what.append(f"kind {x[0]}->{y[0]}")
            else:
                if x[1] != y[1]:
                    what.append("identity")
                if x[0] == "val":
                    if not _eq_entry(("v", x[2]), ("v", y[2])):
                        what.append(f"value {describe(x[2])} -> {describe(y[2])}")
                    if x[3] != y[3]:
                        what.append("graph")
                    if x[4] != y[4]:
                        what.append(f"container {x[4]}->{y[4]}")
                    if len(x) > 5 and x[5] != y[5]:
                        what.append(f"unit {x[5]} -> {y[5]} (converted in place)")
                elif x[2:] != y[2:]:
                    what.append(f"{x[2:]} -> {y[2:]}")
        out.append({"slot": list(map(str, k)), "changed": what})
    return out
