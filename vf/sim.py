"""What-if simulations on generated systems: change lists, dates, execution and observation (shared by C05 / C06)."""
import copy
from datetime import datetime, timedelta, timezone
from . import env, gen, edits, observe
from .spec import val, names_of

UTC = timezone.utc


def rand_change_list(rnd, spec, objs, failing=None, no_hourly=False):
    """list of {"obj","attr","value"} (1-3 changes on distinct slots). failing in (None, 'unit', 'allowed', 'recompute')"""
    changes, seen = [], set()
    n = rnd.randint(1, 3)
    tries = 0
    while len(changes) < n and tries < 20:
        tries += 1
        e = edits.rand_edit(rnd, spec, ["num", "num", "link", "list_assign", "server_type"] + ([] if no_hourly else ["starts"]))
        if e["op"] != "set" or (e["obj"], e["attr"]) in seen or e["obj"] == spec["system"]:
            continue
        seen.add((e["obj"], e["attr"]))
        changes.append({"obj": e["obj"], "attr": e["attr"], "value": e["value"]})
    if failing == "unit":
        s = [n_ for n_ in names_of(spec, ("Server", "Job", "Storage"))]
        if not s:
            return changes
        o = rnd.choice(s)
        attr = {"Server": "ram", "Job": "data_transferred", "Storage": "storage_capacity"}[spec["objects"][o]["cls"]]
        changes = [c for c in changes if (c["obj"], c["attr"]) != (o, attr)]
        changes.insert(rnd.randint(0, len(changes)), {"obj": o, "attr": attr, "value": ["q", 3.7, "W"]})
    elif failing == "allowed":
        srv = names_of(spec, "Server")
        if srv:
            o = rnd.choice(srv)
            bad = rnd.choice([{"obj": o, "attr": "server_type", "value": ["s", "foo"]},
                              {"obj": o, "attr": "fixed_nb_of_instances", "value": ["q", 5000, "dimensionless"]}
                              if spec["objects"][o]["params"]["server_type"][1] != "on-premise" else {"obj": o, "attr": "server_type", "value": ["s", "bar"]}])
            changes = [c for c in changes if (c["obj"], c["attr"]) != (bad["obj"], bad["attr"])]
            changes.insert(rnd.randint(0, len(changes)), bad)
    elif failing == "recompute":
        e = None
        for _ in range(10):
            e = edits.risky_edit(rnd, spec, None)
            if e is not None and e["kind"] not in ("risky_to_on_premise",):
                break
        if e is not None:
            changes = [c for c in changes if (c["obj"], c["attr"]) != (e["obj"], e["attr"])]
            changes.insert(rnd.randint(0, len(changes)), {"obj": e["obj"], "attr": e["attr"], "value": e["value"]})
    return changes


def to_library_changes(changes, objs):
    return [[getattr(objs[c["obj"]], c["attr"]), val(c["value"], objs)] for c in changes]


def period(objs, spec):
    """(first, last) UTC hour of the usage patterns' starts (python aware datetimes)"""
    E = env.load()
    firsts, lasts = [], []
    for up in spec["objects"][spec["system"]]["params"]["usage_patterns"][1]:
        idx = objs[up].utc_hourly_usage_journey_starts.value.index
        firsts.append(idx.min().to_pydatetime()); lasts.append(idx.max().to_pydatetime())
    return min(firsts), max(lasts), max(firsts), min(lasts)


def pick_date(rnd, objs, spec, kind):
    first, last, latest_first, earliest_last = period(objs, spec)
    if kind == "first":
        return first
    if kind == "interior_all_active":
        if latest_first + timedelta(hours=1) >= earliest_last:
            return None
        span = int((earliest_last - latest_first).total_seconds() // 3600)
        return latest_first + timedelta(hours=rnd.randint(1, max(1, span - 1)))
    if kind == "interior":
        span = int((last - first).total_seconds() // 3600)
        return first + timedelta(hours=rnd.randint(1, max(1, span)))
    if kind == "last":
        return last
    if kind == "before":
        return first - timedelta(days=rnd.randint(1, 40))
    if kind == "after":
        return last + timedelta(days=rnd.randint(30, 80))
    if kind == "naive":
        return (first + timedelta(hours=1)).replace(tzinfo=None)
    if kind == "other_tz":
        # the same instant expressed in another zone
        return (first + timedelta(hours=rnd.randint(0, 2))).astimezone(timezone(timedelta(hours=rnd.choice([9, -5, 5.5]))))
    raise ValueError(kind)


def describe_changes(changes):
    return [f"{c['obj']}.{c['attr']}={c['value'][1:] if c['value'][0] != 'h' else 'h[%d]' % len(c['value'][1])}" for c in changes]


def baseline_totals_ok(system, totals_before):
    from .props.c01 import totals_attr, totals_equal
    return totals_equal(totals_before, totals_attr(system, "previous"))
