"""Plain dict-of-floats time series (base-unit magnitudes keyed by int64 ns timestamps): the monitors' own arithmetic."""
from . import env, observe


def S(v):
    """library value (or vrepr) -> {timestamp: float} in base units; empty -> {}"""
    r = v if isinstance(v, tuple) else observe.vrepr(v)
    if r[0] == "empty":
        return {}
    if r[0] == "h":
        return dict(zip(r[3], (float(x) for x in r[4])))
    raise ValueError(f"not a series: {r[:2]}")


def scal(v):
    r = v if isinstance(v, tuple) else observe.vrepr(v)
    if r[0] == "empty":
        return 0.0
    assert r[0] == "q", r
    return r[2]


def base(vs):
    """valuespec ['q', m, unit] -> magnitude in base units"""
    E = env.load()
    return float((vs[1] * E.u(vs[2])).to_base_units().magnitude)


def add(a, b, k=1.0):
    out = dict(a)
    for t, x in b.items():
        out[t] = out.get(t, 0.0) + k * x
    return out


def scale(a, k):
    return {t: x * k for t, x in a.items()}


def total(a):
    return sum(a.values())


def maxabs(*series):
    m = 0.0
    for a in series:
        for x in a.values():
            if abs(x) > m:
                m = abs(x)
    return m


def mismatch(a, b, rtol=1e-9, atol=0.0, scale_hint=0.0):
    """first (t, a_t, b_t) where the two series differ (missing hour = 0), tolerance scaled by the series' own magnitude"""
    tol = atol + rtol * max(maxabs(a, b), scale_hint)
    for t in set(a) | set(b):
        x, y = a.get(t, 0.0), b.get(t, 0.0)
        if not (abs(x - y) <= tol):
            return (t, x, y)
    return None
