"""One interpreter shard of C19: builds the given specs under the given orders / id seeds in THIS process (own PYTHONHASHSEED)
and pickles the observations. usage: python -m vf.c19shard <jobfile.json> <outfile.pkl>"""
import sys, json, pickle, os


def main():
    jobfile, outfile = sys.argv[1], sys.argv[2]
    from vf import env, observe, edits
    from vf.spec import build
    E = env.load()
    jobs = json.load(open(jobfile))
    from vf import reach
    reach.start(env.REPO)
    out = []
    for j in jobs:
        rec = {"key": j["key"], "variant": j["variant"], "hash_seed": os.environ.get("PYTHONHASHSEED")}
        try:
            env.seed_ids(j["id_seed"])
            objs = build(j["spec"], order=j.get("order"))
            for e in j.get("edits", []):
                edits.apply_live(e, objs)
            sysm = objs[j["spec"]["system"]]
            rec["snapshot"] = observe.snapshot(sysm)
            rec["ambiguous"] = bool(observe.ceil_boundary_ambiguous(sysm))
        except Exception as ex:
            rec["error"] = f"{type(ex).__name__}: {str(ex)[:200]}"
        out.append(rec)
    out.append({"key": "__reach__", "reach": reach.drain()})
    with open(outfile, "wb") as f:
        pickle.dump(out, f)


if __name__ == "__main__":
    main()
