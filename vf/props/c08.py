"""C08 — the calculation graph is consistent and complete (structural invariant + update-order monitor + perturbation)."""
import copy, hashlib, json
from .. import env, gen, edits, observe, sim
from ..history import Hist, case_rng
from ..spec import build, prune, reachable

ID = "C08"
LEVEL = "exploration"
RULE = ("case = generated system + edits + (every other case) a simulation that is created and toggled. At every quiescent point: "
        "(structure) every listed ancestor/child of every attached value is currently held by the model and lists the value back (id "
        "level, all entries of a dict = one node), no cycle, the exported JSON lists exactly these edges; (order) for every input the "
        "derived update chain equals the monitor's own descendant closure, lists each id once and after all its ancestors. "
        "(completeness) on the final model, inputs are perturbed one at a time (x1.37, x10, x0.001, x3600 capped, categorical switch) and "
        "the model rebuilt from the perturbed spec: every calculated slot that changed must have the input among its transitive "
        "ancestors. quick: 24 sampled (input, perturbation) pairs per system; thorough: all inputs x all perturbations. distinct = final "
        "snapshot digest; non-trivial = >= 1 perturbation changed >= 1 calculated slot")
BUDGET = {"quick": 280, "thorough": 2700}
PER_CASE_TIMEOUT = {"quick": 200, "thorough": 900}
N = {"quick": 48, "thorough": 400}
PERTURB = [1.37, 10, 0.001, 3600]
BOOK = ("previous_", "initial_")


def cases(tier, seed):
    return [{"seed": seed, "idx": i, "tier": tier, "n_edits": 3} for i in range(N[tier])]


def requirements(tier):
    k = 1 if tier == "quick" else 12
    return {"min_counters": {"structure_checks": 150 * k, "values_checked": 20000 * k, "edges_checked": 40000 * k, "update_chains_checked": 4000 * k,
                             "perturbation_rebuilds": 600 * k, "perturbations_with_effect": 300 * k, "changed_slots_explained": 5000 * k,
                             "structure_checks_after_simulation": 15 * k, "json_edge_lists_compared": 40 * k},
            "required_classes": ["job_shared_by_2_patterns", "jobless_pattern", "multi_timezone", "after_simulation", "after_toggle_on", "builder_model"]}


def held(x):
    """is this value object currently the content of its slot (or an entry of the dict held there)?"""
    c = getattr(x, "modeling_obj_container", None)
    if c is None:
        return False
    cur = c.__dict__.get(x.attr_name_in_mod_obj_container)
    if cur is x:
        return True
    if isinstance(cur, dict):
        return any(v is x for v in cur.values())
    return False


def attached_values(E, objs_list):
    out = []
    for o in objs_list:
        for k, v in o.__dict__.items():
            if k.startswith(BOOK):
                continue
            if isinstance(v, E.ExplainableObjectDict):
                out.extend(list(v.values()))
            elif isinstance(v, E.ExplainableObject):
                out.append(v)
    return out


def graph(E, objs_list, V, C, ctx):
    """structural monitor; returns (ancestors_by_id, children_by_id) at id level"""
    vals = attached_values(E, objs_list)
    anc, chi = {}, {}
    for v in vals:
        C["values_checked"] += 1
        if not held(v):
            V.append({"kind": "value reachable from its object but not held by its slot", "value": getattr(v, "label", "?"), **ctx}); continue
        vid = v.id
        anc.setdefault(vid, set()); chi.setdefault(vid, set())
        for a in v.direct_ancestors_with_id:
            C["edges_checked"] += 1
            if not held(a):
                V.append({"kind": "ancestor listed by a value is not held by the model (detached or superseded)", "value": vid,
                          "ancestor": observe._sid(a), **ctx}); continue
            anc[vid].add(a.id)
        for c in v.direct_children_with_id:
            C["edges_checked"] += 1
            if not held(c):
                V.append({"kind": "child listed by a value is not held by the model (detached or superseded)", "value": vid,
                          "child": observe._sid(c), **ctx}); continue
            chi[vid].add(c.id)
        if len(V) > 6:
            return anc, chi
    # both ends
    # (an end that belongs to an object outside the system - disconnected by an edit - is not walked: only edges whose two ends
    # are values of the system's objects are compared)
    for vid, As in anc.items():
        for a in As:
            if a in chi and vid not in chi[a]:
                V.append({"kind": "dependency listed on the dependent's end only (ancestor does not list it as child)", "value": vid, "ancestor": a, **ctx})
    for vid, Cs in chi.items():
        for c in Cs:
            if c in anc and vid not in anc[c]:
                V.append({"kind": "dependency listed on the ancestor's end only (child does not list it as ancestor)", "value": vid, "child": c, **ctx})
    # cycles (id level)
    state = {}
    for start in chi:
        if start in state:
            continue
        stack = [(start, iter(chi.get(start, ())))]
        state[start] = 1
        while stack:
            node, it = stack[-1]
            nxt = next(it, None)
            if nxt is None:
                state[node] = 2; stack.pop(); continue
            if state.get(nxt) == 1:
                V.append({"kind": "cycle in the calculation graph", "through": [node, nxt], **ctx}); stack = []; break
            if nxt not in state:
                state[nxt] = 1; stack.append((nxt, iter(chi.get(nxt, ()))))
    return anc, chi


def closure(edges, start):
    seen, todo = set(), [start]
    while todo:
        n = todo.pop()
        for m in edges.get(n, ()):
            if m not in seen:
                seen.add(m); todo.append(m)
    return seen


def descendants_by_objects(v):
    """ids of the transitive children of v, following the value objects themselves (so that values of objects that an edit
    disconnected from the system, which the model still recomputes, are followed too); entries of one dict are one node"""
    seen_ids, seen_objs, todo = set(), set(), [v]
    while todo:
        x = todo.pop()
        if id(x) in seen_objs:
            continue
        seen_objs.add(id(x))
        sibs = [x]
        c = getattr(x, "modeling_obj_container", None)
        if c is not None and x is not v:
            cur = c.__dict__.get(x.attr_name_in_mod_obj_container)
            if isinstance(cur, dict) and any(e is x for e in cur.values()):
                sibs = list(cur.values())
        for sx in sibs:
            seen_objs.add(id(sx))
            for ch in sx.direct_children_with_id:
                if held(ch):
                    seen_ids.add(ch.id)
                    todo.append(ch)
    return seen_ids


def check_json(E, system, anc, chi, V, C, ctx):
    d = E.system_to_json(system, save_calculated_attributes=True)
    C["json_edge_lists_compared"] += 1
    def visit(x):
        if isinstance(x, dict):
            if "direct_ancestors_with_id" in x and "id" in x:
                vid = x["id"]
                if vid in anc:
                    # the export of one dict entry lists that entry's own edges: they must be a subset of the node's, and the
                    # union over the entries (same id) is compared below
                    exported.setdefault(vid, [set(), set()])
                    exported[vid][0] |= set(x["direct_ancestors_with_id"]); exported[vid][1] |= set(x["direct_children_with_id"])
            for v in x.values():
                visit(v)
    exported = {}
    visit(d)
    for vid, (ea, ec) in exported.items():
        if ea != anc[vid] or ec != chi[vid]:
            V.append({"kind": "exported JSON graph differs from the live graph", "value": vid, "json_ancestors_only": sorted(ea - anc[vid])[:3],
                      "live_ancestors_only": sorted(anc[vid] - ea)[:3], "json_children_only": sorted(ec - chi[vid])[:3],
                      "live_children_only": sorted(chi[vid] - ec)[:3], **ctx})
            break


def check_order(E, objs_list, anc, chi, V, C, ctx):
    for o in objs_list:
        calc = set(o.calculated_attributes)
        for k, v in o.__dict__.items():
            if k in calc or k.startswith(BOOK) or not isinstance(v, E.ExplainableObject) or isinstance(v, dict):
                continue
            if v.modeling_obj_container is None:
                continue
            C["update_chains_checked"] += 1
            try:
                chain = v.attr_updates_chain
            except Exception as e:
                V.append({"kind": f"attr_updates_chain raised {type(e).__name__}: {str(e)[:160]}", "input": v.id, **ctx}); continue
            ids = [x.id for x in chain if not x.attr_name_in_mod_obj_container.startswith(BOOK)]
            D = {i for i in descendants_by_objects(v) if not i.split("-in-")[0].startswith(BOOK)}
            if len(ids) != len(set(ids)):
                V.append({"kind": "update chain lists a dependent twice", "input": v.id, **ctx}); continue
            if set(ids) != D:
                V.append({"kind": "update chain differs from the descendants of the input", "input": v.id, "missing": sorted(D - set(ids))[:4],
                          "extra": sorted(set(ids) - D)[:4], **ctx}); continue
            pos = {i: n for n, i in enumerate(ids)}
            for i in ids:
                for a in anc.get(i, ()):
                    if a in pos and pos[a] > pos[i]:
                        V.append({"kind": "update chain lists a dependent before something it depends on", "input": v.id, "dependent": i, "ancestor": a, **ctx})
                        break
            if len(V) > 6:
                return


def quiescent(E, h, V, C, ctx, json_too=False):
    C["structure_checks"] += 1
    objs_list = observe.all_objects(h.system)
    anc, chi = graph(E, objs_list, V, C, ctx)
    if not V:
        check_order(E, objs_list, anc, chi, V, C, ctx)
    if not V and json_too:
        check_json(E, h.system, anc, chi, V, C, ctx)
    return anc, chi


def perturbations(rnd, spec):
    """[(object, param, new valuespec, label)] for every value-input of every object of the system"""
    O = spec["objects"]
    out = []
    for n in sorted(reachable(spec)):
        o = O[n]
        for p, vs in o["params"].items():
            if vs[0] == "q":
                for k in PERTURB:
                    new = ["q", (vs[1] * k) if vs[1] != 0 else 1.37 * k, vs[2]]
                    if p in edits.CAP_HOURS and edits.hours_of(new) > edits.CAP_HOURS[p]:
                        new = ["q", vs[1] + 1.5 * 3600 / {"s": 1, "min": 60, "hour": 3600}.get(vs[2], 3600), vs[2]] if vs[2] in ("s", "min", "hour") else None
                    if new is None or (p == "server_utilization_rate" and not 0.05 <= new[1] <= 1):
                        continue
                    out.append((n, p, new, f"x{k}"))
            elif vs[0] == "h":
                out.append((n, p, ["h", [x * 1.37 + 1 for x in vs[1]], vs[2], vs[3]], "series x1.37+1"))
            elif vs[0] == "s" and p == "server_type":
                for t in ("autoscaling", "on-premise", "serverless"):
                    if t != vs[1]:
                        out.append((n, p, ["s", t], "-> " + t))
            elif vs[0] == "s" and p not in ("provider",):
                from .c17 import categorical_alternatives
                for alt in categorical_alternatives(rnd, spec, n, p):
                    out.append((n, p, ["s", alt], "-> " + alt))
            elif vs[0] == "none" and p == "fixed_nb_of_instances":
                out.append((n, p, ["q", 1e6, "dimensionless"], "empty -> 1e6 instances"))
            elif vs[0] == "tz":
                out.append((n, p, ["tz", "Asia/Kolkata" if vs[1] != "Asia/Kolkata" else "America/New_York"], "other zone"))
    return out


def completeness(E, h, anc, V, C, rnd, tier):
    spec = h.spec
    base_snap = observe.snapshot(h.system)
    if observe.ceil_boundary_ambiguous(h.system):
        return
    P = perturbations(rnd, spec)
    if tier == "quick":
        rnd.shuffle(P)
        cat = [x for x in P if x[2][0] in ("s", "tz", "none") or x[2][0] == "q" and x[3].startswith("empty")]
        # durations scaled across an hour boundary change floors / ceils of shifts and spreads: always tried
        dur = [x for x in P if x[1] in edits.CAP_HOURS and x[3] in ("x10", "x3600")]
        first = cat[:10] + dur[:10]
        P = (first + [x for x in P if x not in first])[:24 + len(first) // 2]
    ids = {n: h.objs[n].id for n in spec["objects"] if n in h.objs}
    anc_closure = {}
    for n, p, new, label in P:
        s2 = copy.deepcopy(spec)
        s2["objects"][n]["params"][p] = new
        ref, err = h.reference(s2)
        if ref is None:
            C["perturbation_refused"] += 1
            continue
        C["perturbation_rebuilds"] += 1
        if observe.ceil_boundary_ambiguous(ref[spec["system"]]):
            continue
        snap = observe.snapshot(ref[spec["system"]])
        changed = observe.diff(base_snap, snap)
        if changed:
            C["perturbations_with_effect"] += 1
        xid = f"{p}-in-{ids[n]}"
        for slot in changed:
            if slot[0] not in ids:
                continue
            sid = f"{slot[1]}-in-{ids[slot[0]]}"
            if sid not in anc_closure:
                anc_closure[sid] = closure(anc, sid)
            C["changed_slots_explained"] += 1
            if xid not in anc_closure[sid]:
                V.append({"kind": "changing an input changes a calculated quantity of which it is not a transitive ancestor",
                          "input": [n, p], "perturbation": label, "calculated_slot": list(slot), "before": observe.describe(base_snap.get(slot)),
                          "after": observe.describe(snap.get(slot))})
                break
        if len(V) > 2:
            return


def run_case(case):
    E = env.load()
    rnd = case_rng(case["seed"], case["idx"], "C08")
    spec0 = None
    if case["idx"] % 6 == 5:
        from .c17 import builder_spec
        spec0 = builder_spec(rnd)
    h = Hist(rnd, case["tier"], spec=spec0, max_len=24 if case["tier"] == "quick" else 50)
    C = {k: 0 for k in ("structure_checks", "values_checked", "edges_checked", "update_chains_checked", "perturbation_rebuilds",
                        "perturbations_with_effect", "changed_slots_explained", "structure_checks_after_simulation", "json_edge_lists_compared",
                        "perturbation_refused", "build_failed")}
    classes = set(gen.topo_classes(h.spec)) | ({"builder_model"} if spec0 is not None else set())
    if h.build_error:
        C["build_failed"] = 1
        return {"counters": C, "classes": sorted(classes), "violations": []}
    V = []
    anc, chi = quiescent(E, h, V, C, {"when": "after build"}, json_too=True)
    f3_nets = set()
    for k in range(case["n_edits"]):
        if V:
            break
        e = h.propose()
        sb = h.spec
        if h.apply(e) is not None:
            break
        from .c01 import f3_networks
        f3_nets |= f3_networks(sb, h.spec)
        anc, chi = quiescent(E, h, V, C, {"when": "after " + edits.describe(e), "history": h.log[-4:]})
    if not V and case["idx"] % 2 == 0:
        try:
            changes = sim.rand_change_list(rnd, h.spec, h.objs)
            date = sim.pick_date(rnd, h.objs, h.spec, rnd.choice(["first", "interior", "interior_all_active"])) or sim.pick_date(rnd, h.objs, h.spec, "first")
            m = E.ModelingUpdate(sim.to_library_changes(changes, h.objs), date)
        except Exception:
            m = None
        ctx = {"changes": sim.describe_changes(changes)}
        C["structure_checks_after_simulation"] += 1; classes.add("after_simulation")
        anc, chi = quiescent(E, h, V, C, dict(ctx, when="after a simulation " + ("returned" if m is not None else "raised")), json_too=True)
        if m is not None and not V:
            m.set_updated_values(); classes.add("after_toggle_on")
            # the simulated state is a different model: only the structure is asserted on it (the spec describes the baseline)
            C["structure_checks"] += 1
            V_on = []
            graph(E, observe.all_objects(h.system), V_on, C, dict(ctx, when="simulation toggled on"))
            for v in V_on:
                if v["kind"].startswith("ancestor listed by a value is not held") and v.get("ancestor") == "DETACHED":
                    v["mechanism"] = "F24-simulated-state-lists-detached-baseline-values"
            V.extend(V_on[:3])
            m.reset_values()
            if all(v.get("mechanism") for v in V):
                V_known, V = V, []
            else:
                V_known = []
            if not V:
                C["structure_checks_after_simulation"] += 1
                anc, chi = quiescent(E, h, V, C, dict(ctx, when="after toggling the simulation on and off"))
    nt = False
    if not V:
        completeness(E, h, anc, V, C, rnd, case["tier"])
        for v in V:
            slot = tuple(v.get("calculated_slot") or ())
            if f3_nets and len(slot) >= 2 and ((slot[0] in f3_nets and slot[1] == "energy_footprint") or slot[:2] == (h.spec["system"], "total_footprint")):
                v["mechanism"] = "F3-network-of-jobless-pattern-not-recomputed"
        nt = C["perturbations_with_effect"] > 0
    V = V + (locals().get("V_known") or [])
    for v in V:
        v.setdefault("history", h.log[-4:])
    return {"counters": C, "classes": sorted(classes), "violations": V[:4], "nontrivial": nt,
            "digest": observe.digest(observe.snapshot(h.system)), "sample": h.summary() if case["idx"] < 3 else None}


def witness(fid):
    if fid == "F3":
        from .c01 import witness as w
        return w(fid)
    if fid != "F24":
        return None
    from datetime import datetime, timezone
    E = env.load()
    spec = gen.base_spec()
    env.seed_ids(5)
    o = build(spec)
    m = E.ModelingUpdate([[o["j1"].server, o["srv2"]]], datetime(2025, 1, 1, 2, tzinfo=timezone.utc))
    m.set_updated_values()
    V, C = [], {"values_checked": 0, "edges_checked": 0}
    graph(E, observe.all_objects(o["system"]), V, C, {})
    m.reset_values()
    return any(v.get("ancestor") == "DETACHED" for v in V)
