"""C05 — a what-if simulation never disturbs the baseline (before/after observation with identity, fault sequences)."""
import hashlib
from .. import env, gen, edits, observe, sim
from ..history import Hist, case_rng
from .c01 import totals, totals_attr, totals_equal

ID = "C05"
LEVEL = "fault_enumeration"
RULE = ("case = generated system (optionally after 2 edits) + change list of 1-3 mixed changes (numeric / hourly / link / list / categorical) + "
        "simulation date kind (first hour, interior, last, before, after, naive, other zone) + fault kind (none, wrong unit = refused "
        "before apply, disallowed value = refused after apply, recomputation failure at a raising update function) + toggle string over "
        "{set, reset}. The baseline observation (slot -> identity of the value object, value, id-level graph, links) is taken before "
        "ModelingUpdate(changes, date) and must be identical after it returned or raised and after every reset; set must be idempotent. "
        "distinct = digest(changes, date kind, fault kind, toggles); non-trivial = the simulation recomputed >= 1 value or raised after "
        "having applied changes")
BUDGET = {"quick": 280, "thorough": 2000}
N = {"quick": 300, "thorough": 4000}
DATE_KINDS = ["first", "first", "interior", "interior", "interior", "interior_all_active", "interior_all_active", "last", "before", "after", "naive", "other_tz"]
FAULTS = [None, None, None, None, None, None, "unit", "allowed", "recompute", "recompute"]


def cases(tier, seed):
    return [{"seed": seed, "idx": i, "tier": tier} for i in range(N[tier])]


def requirements(tier):
    k = 1 if tier == "quick" else 15
    return {"min_counters": {"simulations_run": 150 * k, "succeeded": 40 * k, "raised": 50 * k, "baseline_comparisons": 400 * k,
                             "toggle_steps": 150 * k, "raised_after_apply": 15 * k, "fault_unit": 10 * k, "fault_allowed": 10 * k,
                             "fault_recompute": 15 * k},
            "required_classes": ["date_first", "date_interior", "date_last", "date_before", "date_after", "date_naive",
                                 "job_shared_by_2_patterns", "multi_timezone", "change_link", "change_list", "change_num", "directed_unit_mix_staggered_patterns"]}


def compare(tag, s0, system, V, C, ctx):
    C["baseline_comparisons"] += 1
    s1 = observe.full_state(system)
    d = observe.state_diff(s0, s1)
    if d:
        V.append({"kind": f"baseline changed {tag}", "n_slots": len(d), "slots": observe.explain_state_diff(s0, s1, d), **ctx})
        return False
    return True


def run_case(case):
    E = env.load()
    rnd = case_rng(case["seed"], case["idx"], "C05")
    spec0 = None
    if case["idx"] % 8 == 5:
        from .c17 import builder_spec
        spec0 = builder_spec(rnd)
    directed = case["idx"] % 10 == 7
    if directed:
        # two jobs whose data is expressed in different units behind ONE network, an early pattern that is over when a later one starts:
        # the simulation re-expresses one job's data in a third unit after the early pattern has ended (values of the early pattern are
        # then read, not recomputed, and must be left as they are - also in the unit they are expressed in)
        spec0 = gen.base_spec()
        O0 = spec0["objects"]
        O0["up2"]["params"]["network"] = ["ref", "n1"]
        O0["up2"]["params"]["hourly_usage_journey_starts"][2] = "2025-01-03T05:00:00"
        O0["j1"]["params"]["data_transferred"] = ["q", rnd.choice([150.0, 371.0]), "kB"]
        O0["j3"]["params"]["data_transferred"] = ["q", rnd.choice([3.137, 0.237]), "MB"]
    h = Hist(rnd, case["tier"], spec=spec0)
    C = {k: 0 for k in ("simulations_run", "succeeded", "raised", "baseline_comparisons", "toggle_steps", "raised_after_apply",
                        "fault_unit", "fault_allowed", "fault_recompute", "build_failed", "previous_totals_checked")}
    classes = set(gen.topo_classes(h.spec)) | ({"builder_model"} if spec0 is not None else set())
    if h.build_error:
        C["build_failed"] = 1
        return {"counters": C, "classes": sorted(classes), "violations": []}
    for _ in range(0 if directed else rnd.choice([0, 0, 2])):
        if h.apply(h.propose()) is not None:
            return {"counters": C, "classes": sorted(classes), "violations": []}
    sysm = h.system
    fault = rnd.choice(FAULTS)
    dk = rnd.choice(DATE_KINDS)
    changes = sim.rand_change_list(rnd, h.spec, h.objs, failing=fault)
    date = sim.pick_date(rnd, h.objs, h.spec, dk)
    if date is None:
        dk = "interior"; date = sim.pick_date(rnd, h.objs, h.spec, dk)
    if directed:
        from datetime import datetime, timezone, timedelta
        classes.add("directed_unit_mix_staggered_patterns")
        fault = None
        j = rnd.choice(["j1", "j3"])
        changes = [{"obj": j, "attr": "data_transferred", "value": ["q", rnd.choice([0.0005, 0.002]), "GB"]}]
        first2 = h.objs["up2"].utc_hourly_usage_journey_starts.value.index.min().to_pydatetime()
        date = first2 + timedelta(hours=rnd.choice([0, 2])); dk = "interior"
    classes.add("date_" + dk.split("_")[0])
    for c in changes:
        vs = c["value"][0]
        classes.add({"q": "change_num", "h": "change_num", "ref": "change_link", "refs": "change_list", "s": "change_categorical"}.get(vs, "change_other"))
    if fault:
        C["fault_" + fault] += 1
    ctx = {"changes": sim.describe_changes(changes), "date": str(date), "date_kind": dk, "fault": fault, "history": h.log[-4:]}
    V = []
    tot0 = totals(sysm)
    s0 = observe.full_state(sysm)
    snap0 = observe.snapshot(sysm)
    m = None
    applied_before_raise = False
    try:
        lib_changes = sim.to_library_changes(changes, h.objs)
    except Exception as e:
        return {"counters": C, "classes": sorted(classes), "violations": [], "nontrivial": False}
    C["simulations_run"] += 1
    try:
        m = E.ModelingUpdate(lib_changes, date)
        C["succeeded"] += 1
    except Exception as e:
        C["raised"] += 1
        ctx["raised"] = f"{type(e).__name__}: {str(e)[:140]}"
        if fault in ("allowed", "recompute"):
            C["raised_after_apply"] += 1; applied_before_raise = True
    ok = compare("after the simulation " + ("returned" if m is not None else "raised"), s0, sysm, V, C, ctx)
    toggles = []
    nontrivial = applied_before_raise
    if m is not None and ok:
        nontrivial = nontrivial or len(m.values_to_recompute) > 0
        C["previous_totals_checked"] += 1
        if not totals_equal(tot0, totals_attr(sysm, "previous")):
            V.append({"kind": "previous_total_* after the simulation are not the baseline totals", **ctx})
        toggles = [rnd.choice(["set", "reset"]) for _ in range(rnd.randint(2, 6))] + ["reset"]
        set_state = None
        for i, t in enumerate(toggles):
            C["toggle_steps"] += 1
            try:
                if t == "set":
                    m.set_updated_values()
                    st = observe.full_state(sysm)
                    if set_state is None:
                        set_state = st
                    elif observe.state_diff(set_state, st):
                        d = observe.state_diff(set_state, st)
                        V.append({"kind": "state after set_updated_values() differs between toggles (set not idempotent / not reproducible)",
                                  "toggles": toggles[:i + 1], "slots": observe.explain_state_diff(set_state, st, d), **ctx}); break
                else:
                    m.reset_values()
                    if not compare(f"after toggles {toggles[:i + 1]}", s0, sysm, V, C, ctx):
                        break
            except Exception as e:
                V.append({"kind": f"toggle raised {type(e).__name__}: {str(e)[:160]}", "toggles": toggles[:i + 1], **ctx}); break
        # numerically too (cheap, independent of identity bookkeeping)
        if not V and observe.diff(snap0, observe.snapshot(sysm), rtol=0):
            V.append({"kind": "calculated values differ from the baseline after the toggles", **ctx})
    dg = hashlib.md5(repr((ctx["changes"], dk, fault, toggles, sorted(classes))).encode()).hexdigest()[:16]
    return {"counters": C, "classes": sorted(classes), "violations": V[:3], "nontrivial": nontrivial, "digest": dg,
            "sample": dict(ctx, toggles=toggles, outcome="returned" if m is not None else "raised") if case["idx"] < 4 else None}
