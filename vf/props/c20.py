"""C20 — hourly-series builders produce exactly the requested time line (post-condition monitor with a datetime oracle)."""
import math, hashlib, random
from datetime import datetime, timedelta, timezone
from fractions import Fraction
import numpy as np
from .. import env
from ..history import case_rng

ID = "C20"
LEVEL = "exploration"
RULE = ("case = batch of 40 calls of the time_builders helpers with generated arguments (start dates incl. Feb 28/29, Dec 31, month ends and "
        "mid-day starts; spans from 1 h to 800 days incl. non-whole days; 6 units; lists with zeros/floats; the four frequencies with "
        "random active days and hours; invalid frequency / argument combinations). A post-condition monitor checks index start, "
        "1 h step, contiguity, length, dtype/unit and every value against the monitor's own datetime arithmetic. distinct = "
        "(helper, arguments) digest; non-trivial = the series has >= 2 hours and (for frequency helpers) at least one matching hour")
BUDGET = {"quick": 150, "thorough": 900}
N = {"quick": 90, "thorough": 2500}
BATCH = 40
UNITS = ["dimensionless", "GB", "kWh", "cpu_core", "kg", "W"]
STARTS = [datetime(2025, 1, 1), datetime(2024, 2, 28, 5), datetime(2024, 2, 29, 23), datetime(2023, 12, 31, 18), datetime(2025, 3, 30, 1),
          datetime(2025, 6, 15, 13), datetime(2025, 10, 26, 2), datetime(2024, 12, 30, 7), datetime(2025, 1, 31, 22), datetime(2023, 2, 28, 12),
          datetime(2024, 12, 31, 0), datetime(2025, 4, 30, 9)]
HELPERS = ["from_list", "source_from_list", "linear", "sinus", "daily_fluct", "frequency", "frequency", "frequency", "daily_volume", "random", "invalid"]


def cases(tier, seed):
    return [{"seed": seed, "idx": i, "tier": tier} for i in range(N[tier])]


def requirements(tier):
    return {"min_counters": {"calls_checked": 3000 if tier == "quick" else 90000, "freq_weekly": 100, "freq_monthly": 100, "freq_yearly": 100,
                             "freq_daily": 100, "daily_volume_full_days": 200, "midday_start": 500, "leap_day_series": 50, "invalid_refused": 50, "unaligned_start": 200, "aware_start": 100, "rebuilt_after_in_place_change": 100},
            "required_classes": HELPERS[:-1]}


def timespan(rnd, E, big=False):
    """(pint quantity, exact Fraction of hours)"""
    k = rnd.random()
    if k < 0.35:
        h = rnd.choice([1, 2, 5, 7, 14, 23, 24, 25, 28, 31, 49, 50, 100, 167, 168, 1000])
        return h * E.u.hour, Fraction(h)
    if k < 0.7:
        d = rnd.choice([1, 2, 3, 7, 10, 30, 31, 59, 60, 366, 400] + ([800] if big else []))
        return d * E.u.day, Fraction(d * 24)
    if k < 0.85:
        d = rnd.choice([0.5, 1.5, 2.5, 10.5, 0.25, 3.75])
        return d * E.u.day, Fraction(str(d)) * 24
    h = rnd.choice([1.5, 2.25, 30.5, 100.75])
    return h * E.u.hour, Fraction(str(h))


def check_index(df, start, n, unit, E, V, what):
    idx = df.index
    if len(df) != n:
        V.append({"kind": "length", "helper": what, "got": len(df), "expected": n}); return False
    if n == 0:
        return True
    if idx[0].to_pydatetime() != start or (start.tzinfo is not None and (idx.tz is None or idx[0].utcoffset() != start.utcoffset())):
        V.append({"kind": "series does not start at the requested start date", "helper": what, "got": str(idx[0]), "expected": str(start)}); return False
    if n > 1:
        d = np.diff(idx.asi8)
        if not np.all(d == 3600 * 10**9):
            V.append({"kind": "index is not contiguous hourly", "helper": what}); return False
    dt = df.dtypes.iloc[0]
    if not isinstance(dt, E.pint_pandas.pint_array.PintType) or dt.units != E.u(unit).units:
        V.append({"kind": "dtype/unit", "helper": what, "got": str(dt), "expected": f"pint[{unit}]"}); return False
    return True


def mags(df):
    return np.asarray(df["value"].values._data, dtype=float)


def one_call(rnd, E, C, V, classes):
    tb = E.time_builders
    helper = rnd.choice(HELPERS)
    classes.add(helper)
    start = rnd.choice(STARTS)
    if rnd.random() < 0.3:
        start = start.replace(hour=rnd.randrange(24))
    if rnd.random() < 0.15:
        start = start.replace(minute=rnd.choice([30, 1, 59]), second=rnd.choice([0, 1]))      # "starting at the requested start date"
        C["unaligned_start"] = C.get("unaligned_start", 0) + 1
    if helper in ("from_list", "source_from_list", "linear", "frequency", "daily_volume") and rnd.random() < 0.15:
        # a time-zone-aware start date (fixed offset): the series starts at that very instant and keeps its wall clock
        start = start.replace(tzinfo=timezone(timedelta(hours=rnd.choice([2, -5, 5.5, 9]))))
        C["aware_start"] = C.get("aware_start", 0) + 1; classes.add("aware_start")
    unit = rnd.choice(UNITS)
    punit = E.u(unit).units if unit != "dimensionless" else E.u.dimensionless
    if start.hour != 0:
        C["midday_start"] += 1
    desc = {"helper": helper, "start": start.isoformat(), "unit": unit}
    nt = False
    if helper in ("from_list", "source_from_list"):
        n = rnd.choice([1, 2, 3, 24, 25, 100, 777])
        vals = [rnd.choice([0, 0.0, 1, 2.5, 1e-9, 123456.789, 7]) for _ in range(n)]
        r = tb.create_hourly_usage_df_from_list(vals, start, punit) if helper == "from_list" else tb.create_source_hourly_values_from_list(vals, start, punit)
        df = r if helper == "from_list" else r.value
        desc["n"] = n
        if check_index(df, start, n, unit, E, V, helper) and not np.array_equal(mags(df), np.asarray(vals, dtype=float)):
            V.append({"kind": "list not reproduced element for element", "helper": helper, "n": n})
        nt = n >= 2
    elif helper in ("linear", "sinus", "daily_fluct"):
        ts, hrs = timespan(rnd, E)
        n = math.floor(hrs)
        desc["timespan"] = str(ts)
        if helper == "linear":
            a, b = rnd.choice([(0, 100), (5, 5), (1000, 10), (1, 2)])
            df = tb.linear_growth_hourly_values(ts, a, b, start, punit).value
            if check_index(df, start, n, unit, E, V, helper) and n >= 1:
                m = mags(df)
                exp = np.linspace(a, b, n)
                if not np.allclose(m, exp, rtol=1e-12, atol=1e-12):
                    V.append({"kind": "linear growth values", "helper": helper, "first": float(m[0]), "last": float(m[-1]), "expected": [a, b], "timespan": str(ts)})
        elif helper == "sinus":
            A, per = rnd.choice([(10, 24), (3, 7), (100, 168)])
            df = tb.sinusoidal_fluct_hourly_values(ts, A, per, start, punit).value
            if check_index(df, start, n, unit, E, V, helper) and n >= 1:
                m = mags(df)
                exp = np.array([A * math.sin(2 * math.pi * i / per) for i in range(n)])
                if not np.allclose(m, exp, rtol=1e-9, atol=1e-9 * A) or np.max(np.abs(m)) > A * (1 + 1e-12):
                    V.append({"kind": "sinusoid values / bounds", "helper": helper, "timespan": str(ts)})
        else:
            sc = rnd.choice([0.1, 0.5, 1]); hmin = rnd.choice([0, 4, 13, 23])
            df = tb.daily_fluct_hourly_values(ts, sc, hmin, start, punit).value
            if check_index(df, start, n, unit, E, V, helper) and n >= 1:
                m = mags(df)
                exp = np.array([1 + sc * math.sin(3 * math.pi / 2 + 2 * math.pi * (((start.hour + i) % 24) - hmin) / 24) for i in range(n)])
                if not np.allclose(m, exp, rtol=1e-9, atol=1e-12):
                    V.append({"kind": "daily fluctuation values", "helper": helper, "timespan": str(ts)})
                elif n >= 24:
                    hours = [(start + timedelta(hours=i)).hour for i in range(n)]
                    mins = {hours[i] for i in range(n) if abs(m[i] - m.min()) < 1e-12}
                    if mins != {hmin} or m.min() < 1 - sc - 1e-12 or m.max() > 1 + sc + 1e-12:
                        V.append({"kind": "daily fluctuation minimum position / bounds", "helper": helper, "min_at_hours": sorted(mins), "requested": hmin})
        nt = n >= 2
    elif helper in ("frequency", "daily_volume"):
        ts, hrs = timespan(rnd, E, big=True)
        n = math.floor(hrs) + 1          # inclusive end (asserted as observed on the unchanged tree, see DESIGN.md)
        desc["timespan"] = str(ts)
        if helper == "daily_volume":
            hours = rnd.sample(range(24), rnd.randint(1, 6)); vol = rnd.choice([24.0, 1000.0, 7.5])
            build = lambda: tb.create_hourly_usage_from_daily_volume_and_list_of_hours(ts, vol, hours, start, punit)
            df = build().value
            freq, days, v = "daily", None, vol / len(hours)
            desc.update(hours=hours, volume=vol)
        else:
            freq = rnd.choice(["daily", "weekly", "monthly", "yearly"])
            hours = rnd.choice([None, [0], [2, 20], rnd.sample(range(24), 3), [23]])
            if freq == "daily":
                days = None
            elif freq == "weekly":
                days = rnd.choice([None, [0], [5], [5, 6], [1, 3, 6]])
            elif freq == "monthly":
                days = rnd.choice([None, [1], [29], [31], [15, 30], [28, 1]])
            else:
                days = rnd.choice([None, [1], [60], [366], [365], [59, 100], [start.timetuple().tm_yday], [(start + timedelta(days=1)).timetuple().tm_yday]])
            v = rnd.choice([1.0, 250.0, 0.5])
            build = lambda: tb.create_hourly_usage_from_frequency(ts, v, freq, days, hours, start, punit)
            df = build().value
            C["freq_" + freq] += 1
            desc.update(frequency=freq, active_days=days, hours=hours)
        if check_index(df, start, n, unit, E, V, helper):
            m = mags(df)
            hs = hours if hours is not None else [0]
            ds = days if days is not None else ([0] if freq == "weekly" else [1])
            exp = np.zeros(n)
            hit = 0
            leap = False
            for i in range(n):
                t = start + timedelta(hours=i)
                if t.month == 2 and t.day == 29:
                    leap = True
                if t.hour in hs and (freq == "daily" or (freq == "weekly" and t.weekday() in ds) or (freq == "monthly" and t.day in ds)
                                     or (freq == "yearly" and t.timetuple().tm_yday in ds)):
                    exp[i] = v; hit += 1
            if leap:
                C["leap_day_series"] += 1
            if not np.array_equal(m, exp):
                bad = int(np.argmax(m != exp))
                V.append({"kind": "frequency series: volume not at exactly the matching hours", "helper": helper, "args": desc,
                          "first_bad_hour": (start + timedelta(hours=bad)).isoformat(), "got": float(m[bad]), "expected": float(exp[bad])})
            elif helper == "daily_volume":
                # every full calendar day sums to the daily volume
                day0 = (start + timedelta(days=1)).replace(hour=0) if start.hour else start
                i0 = int((day0 - start).total_seconds() // 3600)
                while i0 + 24 <= n:
                    C["daily_volume_full_days"] += 1
                    s_ = float(np.sum(m[i0:i0 + 24]))
                    if abs(s_ - vol) > 1e-9 * vol:
                        V.append({"kind": "daily volume does not sum to the volume on a full day", "args": desc, "day": (start + timedelta(hours=i0)).date().isoformat(), "sum": s_})
                        break
                    i0 += 24
            nt = n >= 2 and hit > 0
            if not V and rnd.random() < 0.3:
                # the caller changes a returned series in place (public .round / .to), then asks for the same series again
                r1 = build()
                alt = {"GB": "MB", "kWh": "Wh", "kg": "g", "W": "kW"}.get(unit)
                try:
                    r1.round(0)
                    if alt:
                        r1.to(E.u(alt).units)
                    r1.value.iloc[0, 0] = r1.value.iloc[0, 0] * 0 + 12345 * r1.value.iloc[0, 0].units
                except Exception:
                    pass
                df2 = build().value
                C["rebuilt_after_in_place_change"] = C.get("rebuilt_after_in_place_change", 0) + 1
                if check_index(df2, start, n, unit, E, V, helper + " (second call with the same arguments)") and not np.array_equal(mags(df2), exp):
                    V.append({"kind": "the same call gives another series after an earlier result was changed in place", "helper": helper, "args": desc})
    elif helper == "random":
        ts, hrs = timespan(rnd, E)
        n = math.floor(hrs) + 1
        lo, hi = rnd.choice([(1, 10), (0, 2), (5, 6)])
        df = tb.create_random_hourly_usage_df(ts, lo, hi, start, punit)
        desc["timespan"] = str(ts)
        if check_index(df, start, n, unit, E, V, helper):
            m = mags(df)
            if m.min() < lo or m.max() >= hi or not np.all(m == np.round(m)):
                V.append({"kind": "random series outside [min, max)", "helper": helper})
        nt = n >= 2
    elif helper == "invalid":
        ts, hrs = timespan(rnd, E)
        which = rnd.choice(["bad_frequency", "daily_with_days"])
        try:
            if which == "bad_frequency":
                tb.create_hourly_usage_from_frequency(ts, 1.0, rnd.choice(["hourly", "Daily", "", "biweekly"]), None, None, start, punit)
            else:
                tb.create_hourly_usage_from_frequency(ts, 1.0, "daily", [1], None, start, punit)
            V.append({"kind": "invalid frequency arguments accepted", "which": which})
        except ValueError:
            C["invalid_refused"] += 1
        nt = True
    C["calls_checked"] += 1
    for v in V:
        v.setdefault("args", desc)
    return desc, nt


def run_case(case):
    E = env.load()
    rnd = case_rng(case["seed"], case["idx"], "C20")
    C = {k: 0 for k in ("calls_checked", "freq_daily", "freq_weekly", "freq_monthly", "freq_yearly", "daily_volume_full_days",
                        "midday_start", "leap_day_series", "invalid_refused")}
    V, classes, descs = [], set(), []
    h = hashlib.md5()
    nts = 0
    for _ in range(BATCH):
        d, nt = one_call(rnd, E, C, V, classes)
        descs.append(d); nts += int(nt)
        h.update(repr(sorted(d.items(), key=str)).encode())
        if len(V) > 3:
            break
    return {"counters": C, "classes": sorted(classes), "violations": V[:4], "nontrivial": nts > 0, "digest": h.hexdigest()[:16],
            "sample": {"calls": descs[:5]} if case["idx"] < 2 else None}


def extra_evidence(recs, cases_):
    return {"calls_per_case": BATCH}
