"""C04 — infrastructure is always sized to cover the computed need (reference ledger + inequalities + fault observation)."""
import math, copy, bisect, hashlib
import numpy as np
from fractions import Fraction
from .. import env, gen, observe, refmodel as R
from ..history import case_rng
from ..spec import build, obj, q, prune, names_of, reachable, SERVER_CLS, JOB_CLS
from ..series import S, scal, base, add, scale, total, mismatch, maxabs

ID = "C04"
LEVEL = "exploration"
RULE = ("case = one generated model (server types x base consumptions x utilisation x storage duration/replication/base need/capacity x "
        "writer and deleter jobs on patterns with equal / overlapping / disjoint windows x traffic ending in zero runs), built once "
        "freely, then rebuilt with a fixed instance count that is just enough (must be honoured at every hour) or one short (must "
        "raise). Monitors: raw need recomputed from published needs, per-type sizing relations, storage ledger reference by "
        "timestamp, coverage, sign, active <= provisioned, classification of every exception by type/message. distinct = digest of "
        "(types, durations, windows, fixed variant); non-trivial = some server or storage had a non-zero need")
BUDGET = {"quick": 220, "thorough": 1500}
N = {"quick": 320, "thorough": 4000}


def cases(tier, seed):
    return [{"seed": seed, "idx": i, "tier": tier} for i in range(N[tier])]


def requirements(tier):
    return {"min_counters": {"servers_checked": 300 if tier == "quick" else 4000, "storages_checked": 300, "ledger_hours_compared": 5000,
                             "fixed_just_enough": 40, "fixed_one_short_raised": 40, "deletion_free_models": 80, "deleting_models": 30,
                             "capacity_exceeded_raised": 10, "live_fixed_enough": 30, "live_fixed_short_raised": 30, "live_sizing_edits": 300},
            "required_classes": ["srv_autoscaling", "srv_on-premise", "srv_serverless", "windows_disjoint", "windows_overlapping",
                                 "windows_equal", "zero_tail", "short_storage_duration", "deleter", "live_type_serverless_to_autoscaling",
                                 "live_type_serverless_to_on-premise", "live_type_autoscaling_to_on-premise"]}


def c04_spec(rnd):
    O = {}
    classes = set()
    nsrv = rnd.randint(1, 2)
    deleting = rnd.random() < 0.35
    for i in range(nsrv):
        dur = rnd.choice([(1, "hour"), (3, "hour"), (30, "hour"), (5, "year"), (90, "min")])
        if dur[1] != "year":
            classes.add("short_storage_duration")
        O[f"st{i}"] = obj("Storage", data_storage_duration=q(*dur), data_replication_factor=q(rnd.choice([1, 2, 3]), "dimensionless"),
                          base_storage_need=q(rnd.choice([50.37, 1.37]) if deleting else rnd.choice([0, 0, 1.37]), "TB"),
                          storage_capacity=q(rnd.choice([1.13, 0.0013, 0.13]), "TB"), idle_power=q(rnd.choice([0, 0.1]), "W"))
        ram = rnd.choice([16, 128]); cpu = rnd.choice([8, 24]); util = rnd.choice([0.9, 0.5, 1])
        base_ram = rnd.choice([0, 0.3, ram * util * 0.97]); base_cpu = rnd.choice([0, 2, cpu * util * 0.5])
        if rnd.random() < 0.05:
            base_ram = ram * util * 1.2
        elif rnd.random() < 0.05:
            base_cpu = cpu * util * 1.01
        O[f"srv{i}"] = obj("Server", storage=["ref", f"st{i}"], server_type=["s", rnd.choice(["autoscaling", "on-premise", "serverless"])],
                           ram=q(ram, "GB"), compute=q(cpu, "cpu_core"), server_utilization_rate=q(util, "dimensionless"),
                           base_ram_consumption=q(base_ram, "GB"), base_compute_consumption=q(base_cpu, "cpu_core"))
    njobs = rnd.randint(1, 4)
    for i in range(njobs):
        ds = rnd.choice([100, 2371, 0, 813.7])
        if deleting and i == njobs - 1:
            ds = -rnd.choice([10, 237]); classes.add("deleter")
        O[f"j{i}"] = obj("Job", server=["ref", f"srv{rnd.randrange(nsrv)}"], request_duration=q(*rnd.choice(gen.DURS)),
                         data_transferred=q(150, "kB"), data_stored=q(ds, "kB"),
                         compute_needed=q(rnd.choice([0.1, 1.3]), "cpu_core"), ram_needed=q(rnd.choice([50, 537]), "MB"))
    nup = rnd.randint(1, 3)
    win = rnd.choice(["equal", "overlapping", "disjoint"]) if nup > 1 else "equal"
    classes.add("windows_" + win)
    t0 = rnd.choice(["2025-01-01T00:00:00", "2025-03-29T20:00:00", "2025-06-10T05:00:00"])
    from datetime import datetime, timedelta
    base_len = rnd.choice([6, 12, 30, 60])
    O["n0"] = obj("Network"); O["d0"] = obj("Device")
    O["c0"] = obj("Country", short_name=["str", "C0"], timezone=["tz", rnd.choice(["UTC", "Europe/Paris", "Asia/Kolkata"])])
    for i in range(nup):
        k = rnd.randint(1, 2)
        O[f"s{i}"] = obj("UsageJourneyStep", user_time_spent=q(*rnd.choice(gen.STEP_TIMES)),
                         jobs=["refs", [f"j{(i + x) % njobs}" for x in range(k)]])
        O[f"uj{i}"] = obj("UsageJourney", uj_steps=["refs", [f"s{i}"]])
        start = datetime.fromisoformat(t0)
        n = base_len
        if win == "overlapping":
            start += timedelta(hours=i * rnd.randint(1, max(1, base_len // 2))); n = base_len + rnd.choice([0, 3])
        elif win == "disjoint":
            start += timedelta(hours=i * (base_len + rnd.randint(20, 60))); n = rnd.choice([base_len, base_len + 3])
        vals = [rnd.choice([10, 137, 1000, 2513]) for _ in range(n)]
        if rnd.random() < 0.5:
            z = rnd.randint(1, max(1, n // 2)); vals[-z:] = [0] * z; classes.add("zero_tail")
        O[f"up{i}"] = obj("UsagePattern", usage_journey=["ref", f"uj{i}"], network=["ref", "n0"], country=["ref", "c0"], devices=["refs", ["d0"]],
                          hourly_usage_journey_starts=["h", vals, start.isoformat(), "dimensionless"])
    O["system"] = {"cls": "System", "params": {"usage_patterns": ["refs", [f"up{i}" for i in range(nup)]]}}
    return prune({"objects": O, "system": "system"}), classes, deleting


def ceil_ok(nb, raw):
    return nb in (math.ceil(raw), math.ceil(raw * (1 - 1e-9) - 1e-12), math.ceil(raw * (1 + 1e-9) + 1e-12))


def check_servers(spec, objs, V, C):
    O = spec["objects"]
    for s in names_of(spec, SERVER_CLS):
        P = O[s]["params"]
        srv = objs[s]
        ram_need, cpu_need = S(srv.hour_by_hour_ram_need), S(srv.hour_by_hour_compute_need)
        if not ram_need and not cpu_need:
            continue
        C["servers_checked"] += 1
        util = base(P["server_utilization_rate"])
        av_ram = base(P["ram"]) * util - base(P["base_ram_consumption"])
        av_cpu = base(P["compute"]) * util - base(P["base_compute_consumption"])
        raw = S(srv.raw_nb_of_instances); nb = S(srv.nb_of_instances)
        ref_raw = {t: max(ram_need.get(t, 0.0) / av_ram if av_ram > 0 else math.inf, cpu_need.get(t, 0.0) / av_cpu if av_cpu > 0 else math.inf)
                   for t in set(ram_need) | set(cpu_need)}
        mm = mismatch(raw, ref_raw, rtol=1e-7)
        if mm:
            V.append({"kind": "raw_nb_of_instances != max(ram need / available ram, cpu need / available cpu)", "server": s, "at": mm[0], "published": mm[1], "reference": mm[2]})
            continue
        typ = P["server_type"][1]
        fixed = P.get("fixed_nb_of_instances", ["none"])
        mx = max(raw.values()) if raw else 0.0
        C["server_hours_checked"] += len(raw)
        for t, r in raw.items():
            n = nb.get(t)
            if n is None:
                V.append({"kind": "no instance count at an hour with need", "server": s, "at": t}); break
            if n < r - 1e-9 * max(1.0, r):
                V.append({"kind": "fewer instances than the raw need", "server": s, "type": typ, "at": t, "instances": n, "raw": r}); break
            if typ == "serverless" and abs(n - r) > 1e-9 * max(1.0, r):
                V.append({"kind": "serverless instances != raw need", "server": s, "at": t, "instances": n, "raw": r}); break
            if typ == "autoscaling" and not ceil_ok(n, r):
                V.append({"kind": "autoscaling instances != ceil(raw need)", "server": s, "at": t, "instances": n, "raw": r}); break
            if typ == "on-premise":
                if fixed[0] == "q":
                    if n != fixed[1]:
                        V.append({"kind": "fixed instance count not honoured exactly", "server": s, "at": t, "instances": n, "fixed": fixed[1]}); break
                elif not ceil_ok(n, mx):
                    V.append({"kind": "on-premise instances != ceil(peak need)", "server": s, "at": t, "instances": n, "peak": mx}); break
        if typ == "on-premise" and len(set(nb.values())) > 1:
            V.append({"kind": "on-premise instance count not constant", "server": s, "values": sorted(set(nb.values()))[:4]})


def ledger(spec, objs, st):
    """reference cumulative storage need from the published per-job stored volumes"""
    O = spec["objects"]
    P = O[st]["params"]
    servers = [s for s in names_of(spec, SERVER_CLS) if O[s]["params"]["storage"][1] == st]
    jobs = [j for j in names_of(spec, JOB_CLS) if gen.server_of_job(spec, j) in servers and j in reachable(spec)]
    repl = base(P["data_replication_factor"])
    need, freed = {}, {}
    for j in jobs:
        ser = S(objs[j].hourly_data_stored_across_usage_patterns)
        if base(O[j]["params"]["data_stored"]) >= 0:
            need = add(need, ser, repl)
        else:
            freed = add(freed, ser, repl)
    if not need and not freed:
        return None
    dumps = {}
    if need:
        last = max(need)
        for D in sorted(R.int_candidates(R.hours(P["data_storage_duration"]), math.ceil)):
            dumps = {t + D * R.HOUR_NS: -v for t, v in need.items() if t + D * R.HOUR_NS <= last}
            break
    delta = add(add(need, freed), dumps)
    basev = base(P["base_storage_need"])
    flows = sum(abs(v) for v in need.values()) + sum(abs(v) for v in freed.values()) + sum(abs(v) for v in dumps.values()) + basev
    cum, run = {}, basev
    for t in sorted(delta):
        run += delta[t]; cum[t] = run
    return {"cum": cum, "flows": flows, "base": basev, "need": need, "freed": freed, "dumps": dumps, "jobs": jobs}


def check_storages(spec, objs, V, C):
    O = spec["objects"]
    for st in names_of(spec, "Storage"):
        if st not in reachable(spec):
            continue
        L = ledger(spec, objs, st)
        if L is None:
            continue
        C["storages_checked"] += 1
        P = O[st]["params"]
        stor = objs[st]
        live = S(stor.full_cumulative_storage_need)
        ts = sorted(L["cum"])
        tol = 2e-9 * L["flows"] + 1e-30

        def ref_at(t):
            i = bisect.bisect_right(ts, t)
            return L["cum"][ts[i - 1]] if i else L["base"]
        bad = False
        for t in set(L["cum"]) | set(live):
            C["ledger_hours_compared"] += 1
            if t not in live:
                if abs(ref_at(t) - (ref_at(t - 1))) > tol:      # a timestamp with a real flow is missing
                    V.append({"kind": "ledger: hour with a flow missing from full_cumulative_storage_need", "storage": st, "at": t}); bad = True; break
                continue
            if abs(ref_at(t) - live[t]) > tol:
                V.append({"kind": "cumulative storage need != base + running sum of replicated writes - expiries - deletions (by timestamp)",
                          "storage": st, "at": t, "published": live[t], "reference": ref_at(t), "flows": L["flows"]}); bad = True; break
        if bad:
            continue
        cap = base(P["storage_capacity"])
        nb = S(stor.nb_of_instances); act = S(stor.nb_of_active_instances)
        fixed = P.get("fixed_nb_of_instances", ["none"])
        for t, c in live.items():
            n = nb.get(t)
            if c < -tol:
                V.append({"kind": "negative cumulative storage need published", "storage": st, "at": t, "value": c}); break
            if n is None:
                V.append({"kind": "no storage instance count at an hour of the ledger", "storage": st, "at": t}); break
            if n * cap < c - tol:
                V.append({"kind": "storage instances x capacity do not cover the cumulative need", "storage": st, "at": t, "instances": n, "need": c, "capacity": cap}); break
            if fixed[0] == "q":
                if n != fixed[1]:
                    V.append({"kind": "fixed storage instance count not honoured exactly", "storage": st, "at": t, "instances": n, "fixed": fixed[1]}); break
            elif not ceil_ok(n, c / cap) and not ceil_ok(n, max(c, 0.0) / cap):
                V.append({"kind": "storage instances != ceil(cumulative need / capacity)", "storage": st, "at": t, "instances": n, "raw": c / cap}); break
            a = act.get(t, 0.0)
            if a > n + 1e-9 * max(1.0, n):
                V.append({"kind": "active storage instances exceed provisioned ones", "storage": st, "at": t, "active": a, "provisioned": n}); break


def classify_exception(e, deleting):
    msg = str(e)
    if isinstance(e, ValueError) and "negative cumulative storage need" in msg:
        return "negative_storage" if deleting else "UNEXPECTED negative storage without deleting job"
    if isinstance(e, ValueError) and "is superior to the number of instances specified" in msg:
        return "fixed_count_exceeded"
    if isinstance(e, ValueError) and "has available capacity of" in msg:
        return "capacity_exceeded"
    return f"UNEXPECTED {type(e).__name__}: {msg[:160]}"


def run_case(case):
    E = env.load()
    rnd = case_rng(case["seed"], case["idx"], "C04")
    spec, classes, deleting = c04_spec(rnd)
    classes |= gen.topo_classes(spec)
    C = {k: 0 for k in ("servers_checked", "storages_checked", "ledger_hours_compared", "server_hours_checked", "fixed_just_enough",
                        "fixed_one_short_raised", "deletion_free_models", "deleting_models", "capacity_exceeded_raised", "negative_storage_raised")}
    V = []
    C["deleting_models" if deleting else "deletion_free_models"] += 1
    env.seed_ids(rnd.getrandbits(32))
    variant = "free"
    try:
        objs = build(spec)
    except Exception as e:
        k = classify_exception(e, deleting)
        if k.startswith("UNEXPECTED"):
            V.append({"kind": "model rejected: " + k, "deleting_job": deleting})
        else:
            C[k + "_raised"] = C.get(k + "_raised", 0) + 1
        return {"counters": C, "classes": sorted(classes), "violations": V, "nontrivial": False,
                "digest": hashlib.md5(repr(spec).encode()).hexdigest()[:16]}
    check_servers(spec, objs, V, C)
    check_storages(spec, objs, V, C)
    nontrivial = C["servers_checked"] + C["storages_checked"] > 0
    # second phase: fix an instance count at exactly the need / one short of it
    cands = [("srv", s) for s in names_of(spec, SERVER_CLS) if spec["objects"][s]["params"]["server_type"][1] == "on-premise"
             and not isinstance(objs[s].nb_of_instances, E.EmptyExplainableObject)]
    cands += [("st", s) for s in names_of(spec, "Storage") if not isinstance(objs[s].nb_of_instances, E.EmptyExplainableObject)]
    if cands and not V:
        kind, n = rnd.choice(cands)
        need = int(max(S(objs[n].nb_of_instances).values()))
        short = rnd.random() < 0.5 and need >= 1
        spec2 = copy.deepcopy(spec)
        spec2["objects"][n]["params"]["fixed_nb_of_instances"] = ["q", float(need - 1 if short else need + rnd.choice([0, 0, 2])), "dimensionless"]
        variant = f"{kind}:{'one_short' if short else 'enough'}"
        try:
            objs2 = build(spec2)
            if short:
                V.append({"kind": "a fixed instance count one short of the need was accepted silently", "object": n, "need": need,
                          "fixed": need - 1, "published": sorted(set(S(objs2[n].nb_of_instances).values()))[:3]})
            else:
                C["fixed_just_enough"] += 1
                V2 = []
                check_servers(spec2, objs2, V2, C); check_storages(spec2, objs2, V2, C)
                V.extend(V2)
        except Exception as e:
            k = classify_exception(e, deleting)
            if short and k == "fixed_count_exceeded":
                C["fixed_one_short_raised"] += 1
            else:
                V.append({"kind": f"model with a sufficient fixed instance count rejected: {k}" if not short else f"unexpected rejection: {k}",
                          "object": n, "need": need})
    # third phase: the same fixed count given by a live assignment on the computed model (honoured exactly or refused)
    if cands and not V:
        from ..spec import val
        kind, n = rnd.choice(cands)
        need = int(max(S(objs[n].nb_of_instances).values()))
        short = rnd.random() < 0.5 and need >= 1
        fx = ["q", float(need - 1 if short else need + rnd.choice([0, 3])), "dimensionless"]
        try:
            objs[n].fixed_nb_of_instances = val(fx)
            if short:
                V.append({"kind": "live assignment of a fixed instance count one short of the need was accepted silently", "object": n,
                          "need": need, "fixed": fx[1], "published": sorted(set(S(objs[n].nb_of_instances).values()))[:3]})
            else:
                C["live_fixed_enough"] = C.get("live_fixed_enough", 0) + 1
                spec3 = copy.deepcopy(spec); spec3["objects"][n]["params"]["fixed_nb_of_instances"] = fx
                V3 = []
                check_servers(spec3, objs, V3, C); check_storages(spec3, objs, V3, C)
                for v in V3:
                    v["after"] = f"live assignment {n}.fixed_nb_of_instances = {fx[1]}"
                V.extend(V3)
        except Exception as e:
            k = classify_exception(e, deleting)
            if short and k == "fixed_count_exceeded":
                C["live_fixed_short_raised"] = C.get("live_fixed_short_raised", 0) + 1
            else:
                V.append({"kind": f"live assignment of a fixed instance count: unexpected {k}", "object": n, "need": need, "fixed": fx[1]})
    # fourth phase: live edits of sizing inputs on the computed model (the ledger and the sizing relations must hold on what the
    # incremental machinery produced, e.g. a base need edited twice must not be added twice)
    if not V:
        spec4 = copy.deepcopy(spec)
        if "spec3" in dir() and False:
            pass
        from ..spec import val
        live_fixed = None
        for _ in range(3):
            kinds = []
            for n_, o_ in spec4["objects"].items():
                if o_["cls"] == "Storage":
                    kinds += [(n_, a) for a in ("base_storage_need", "base_storage_need", "storage_capacity", "data_replication_factor", "data_storage_duration")]
                elif o_["cls"] == "Server":
                    kinds += [(n_, a) for a in ("ram", "compute", "server_utilization_rate", "server_type", "server_type")]
                elif o_["cls"] == "Job":
                    kinds += [(n_, a) for a in ("ram_needed", "compute_needed")]      # the need rises under a count that may be fixed
                elif o_["cls"] == "UsagePattern":
                    kinds += [(n_, "hourly_usage_journey_starts")]
            if not kinds:
                break
            n_, a_ = rnd.choice(kinds)
            old_ = spec4["objects"][n_]["params"][a_]
            if a_ == "server_type":
                # the sizing rule follows the declared type, also when the type changes on a computed model
                new_ = ["s", rnd.choice([t for t in ("autoscaling", "on-premise", "serverless") if t != old_[1]])]
                fx_ = getattr(objs[n_], "fixed_nb_of_instances", None)
                if new_[1] != "on-premise" and fx_ is not None and not isinstance(fx_, E.EmptyExplainableObject):
                    continue
                classes.add(f"live_type_{old_[1]}_to_{new_[1]}")
            elif a_ == "hourly_usage_journey_starts":
                new_ = ["h", [x * 3 + 1 for x in old_[1]], old_[2], old_[3]]
            elif a_ in ("ram_needed", "compute_needed"):
                new_ = ["q", old_[1] * rnd.choice([3.0, 7.0]), old_[2]]
            elif a_ in ("ram", "compute"):
                new_ = ["q", old_[1] * rnd.choice([1.37, 2.0, 0.4, 0.4]), old_[2]]
            elif a_ == "base_storage_need":
                new_ = ["q", rnd.choice([1.5, 6.0, 8.0, old_[1] + 3.0]), "TB"]
            elif a_ == "data_storage_duration":
                new_ = ["q", rnd.choice([2, 5, 40]), "hour"]
            elif a_ == "server_utilization_rate":
                new_ = ["q", rnd.choice([0.8, 0.95, 1.0]), "dimensionless"]
            else:
                new_ = ["q", old_[1] * rnd.choice([1.37, 2.0, 3.0]), old_[2]]
            try:
                setattr(objs[n_], a_, val(new_))
            except Exception as e:
                k = classify_exception(e, deleting)
                if k.startswith("UNEXPECTED"):
                    V.append({"kind": f"live edit of a sizing input: {k}", "edit": [n_, a_, new_[1:]]})
                continue
            spec4["objects"][n_]["params"][a_] = new_
            # the fixed count given in phase three (if accepted) is part of the live model
            for m_, o_ in spec4["objects"].items():
                fx_live = getattr(objs[m_], "fixed_nb_of_instances", None) if o_["cls"] in ("Storage", "Server") else None
                if fx_live is not None and not isinstance(fx_live, E.EmptyExplainableObject):
                    o_["params"]["fixed_nb_of_instances"] = ["q", float(fx_live.value.magnitude), "dimensionless"]
            C["live_sizing_edits"] = C.get("live_sizing_edits", 0) + 1
            V4 = []
            check_servers(spec4, objs, V4, C); check_storages(spec4, objs, V4, C)
            for v in V4:
                v["after_live_edits"] = f"{n_}.{a_} = {new_[1:]}"
            V.extend(V4)
            if V:
                break
    for v in V:
        v["model"] = {n: {k: x for k, x in o["params"].items() if x[0] != "h"} for n, o in spec["objects"].items()
                      if o["cls"] in ("Storage", "Server", "Job")}
        v["windows"] = {n: (o["params"]["hourly_usage_journey_starts"][2], len(o["params"]["hourly_usage_journey_starts"][1]))
                        for n, o in spec["objects"].items() if o["cls"] == "UsagePattern"}
    sample = None
    if case["idx"] % 89 == 0:
        sample = {"classes": sorted(classes), "variant": variant, "counters": C,
                  "storages": {n: o["params"] for n, o in spec["objects"].items() if o["cls"] == "Storage"}}
    return {"counters": C, "classes": sorted(classes), "violations": V[:5], "nontrivial": nontrivial,
            "digest": hashlib.md5((repr(sorted(classes)) + variant + repr([(n, o["params"].get("data_storage_duration"), o["params"].get("server_type"),
                                   o["params"].get("base_ram_consumption")) for n, o in spec["objects"].items()])).encode()).hexdigest()[:16],
            "sample": sample}
