"""C06 — a what-if simulation computes what really making the change would (differential against a really-updated twin)."""
import copy, hashlib
from datetime import timezone
from .. import env, gen, edits, observe, sim
from ..history import Hist, case_rng
from ..spec import build, prune

ID = "C06"
LEVEL = "exploration"
RULE = ("case = generated system + change list (1-3 mixed changes) + date kind. first hour: after set_updated_values() every calculated "
        "slot is compared with a twin system (same spec) on which the same changes were REALLY applied (single assignment or grouped "
        "ModelingUpdate). interior date with every pattern active: no recomputed hourly value may hold a timestamp before the date. any "
        "date: values_to_recompute / recomputed_values are paired slot by slot and twin-linked both ways. outside / naive dates must be "
        "refused with ValueError. distinct = digest(changes, date kind, topology); non-trivial = >= 1 value recomputed and (first hour) "
        ">= 1 calculated slot differs from the baseline")
BUDGET = {"quick": 280, "thorough": 2000}
N = {"quick": 340, "thorough": 4000}
DATE_KINDS = ["first", "first", "first", "first", "first_other_tz", "interior_all_active", "interior_all_active", "interior_all_active", "interior_all_active", "interior", "last", "before", "after", "naive"]


def cases(tier, seed):
    return [{"seed": seed, "idx": i, "tier": tier} for i in range(N[tier])]


def requirements(tier):
    k = 1 if tier == "quick" else 15
    return {"min_counters": {"first_hour_twin_comparisons": 60 * k, "slots_compared_with_twin": 3000 * k, "interior_window_checks": 40 * k,
                             "pairs_checked": 1500 * k, "outside_or_naive_refused": 30 * k, "inside_dates_accepted": 25 * k},
            "required_classes": ["multi_timezone", "job_shared_by_2_patterns", "change_link", "change_list", "change_num", "first_other_tz",
                                 "dst_switch_inside_period", "second_simulation_on_the_system", "non_whole_hour_offset_zone"]}


def run_case(case):
    E = env.load()
    rnd = case_rng(case["seed"], case["idx"], "C06")
    spec0 = None
    if case["idx"] % 8 == 5:
        from .c17 import builder_spec
        spec0 = builder_spec(rnd)
    dst_case = case["idx"] % 9 == 4 and spec0 is None
    if dst_case:
        # every pattern in one daylight-saving zone, starting a few hours before the spring switch; the date is taken after the switch
        # and the change list re-links the pattern (so its own local series is cut at the date)
        spec0 = gen.rand_spec(rnd, case["tier"], jobless_ok=False)
        zone, start_ = rnd.choice([("Europe/Paris", "2025-03-29T20:00:00"), ("America/New_York", "2025-03-08T21:00:00"), ("Europe/London", "2025-03-29T19:00:00")])
        for n_, o_ in spec0["objects"].items():
            if o_["cls"] == "Country":
                o_["params"]["timezone"] = ["tz", zone]
            if o_["cls"] == "UsagePattern":
                hs = o_["params"]["hourly_usage_journey_starts"]
                ln = max(len(hs[1]), 24)
                o_["params"]["hourly_usage_journey_starts"] = ["h", [rnd.choice(gen.START_VALUES[2:]) for _ in range(ln)], start_, "dimensionless"]
    half_hour_case = case["idx"] % 9 == 2 and spec0 is None
    if half_hour_case:
        # every pattern in a zone whose offset is not a whole number of hours: the UTC hours of the model start at xx:30 / xx:15
        spec0 = gen.rand_spec(rnd, case["tier"], jobless_ok=False)
        zone = rnd.choice(["Asia/Kolkata", "Asia/Kathmandu", "Australia/Adelaide"])
        for n_, o_ in spec0["objects"].items():
            if o_["cls"] == "Country":
                o_["params"]["timezone"] = ["tz", zone]
    h = Hist(rnd, case["tier"], spec=spec0)
    C = {k: 0 for k in ("first_hour_twin_comparisons", "slots_compared_with_twin", "interior_window_checks", "pairs_checked",
                        "outside_or_naive_refused", "sim_refused_valid_change", "twin_refused", "build_failed", "hourly_values_window_checked",
                        "boundary_skipped")}
    classes = set(gen.topo_classes(h.spec)) | ({"builder_model"} if spec0 is not None else set())
    if h.build_error:
        C["build_failed"] = 1
        return {"counters": C, "classes": sorted(classes), "violations": []}
    sysm = h.system
    if case["idx"] % 4 == 1:
        # a first what-if, created, toggled and reset: the simulation under test is then the second one on this system
        try:
            ch0 = sim.rand_change_list(rnd, h.spec, h.objs, no_hourly=True)
            m0 = E.ModelingUpdate(sim.to_library_changes(ch0, h.objs), sim.pick_date(rnd, h.objs, h.spec, rnd.choice(["first", "interior"])))
            m0.set_updated_values(); m0.reset_values()
            classes.add("second_simulation_on_the_system"); C["second_simulations"] = C.get("second_simulations", 0) + 1
        except Exception:
            pass
    dk = rnd.choice(DATE_KINDS) if case["idx"] % 3 else "interior_all_active"
    changes = sim.rand_change_list(rnd, h.spec, h.objs, no_hourly=(case["idx"] % 3 == 0))
    if dst_case and not h.build_error:
        from datetime import timedelta
        ups_ = h.spec["objects"][h.spec["system"]]["params"]["usage_patterns"][1]
        up_ = rnd.choice(ups_)
        devs = [d for d, o_ in h.spec["objects"].items() if o_["cls"] == "Device"]
        steps_ = h.spec["objects"][h.spec["objects"][up_]["params"]["usage_journey"][1]]["params"]["uj_steps"][1]
        changes = [rnd.choice([{"obj": up_, "attr": "devices", "value": ["refs", rnd.sample(devs, rnd.randint(1, len(devs)))]},
                               {"obj": h.spec["objects"][up_]["params"]["usage_journey"][1], "attr": "uj_steps", "value": ["refs", list(reversed(steps_)) + steps_[:1]]}])]
        first_ = min(h.objs[u].utc_hourly_usage_journey_starts.value.index.min() for u in ups_).to_pydatetime()
        dk = "interior_all_active"; classes.add("dst_switch_inside_period")
        dst_date = first_ + timedelta(hours=rnd.randint(9, 20))
    if half_hour_case and not h.build_error:
        ups_ = h.spec["objects"][h.spec["system"]]["params"]["usage_patterns"][1]
        up_ = rnd.choice(ups_)
        devs = [d for d, o_ in h.spec["objects"].items() if o_["cls"] == "Device"]
        steps_ = h.spec["objects"][h.spec["objects"][up_]["params"]["usage_journey"][1]]["params"]["uj_steps"][1]
        changes = [rnd.choice([{"obj": up_, "attr": "devices", "value": ["refs", rnd.sample(devs, rnd.randint(1, len(devs)))]},
                               {"obj": h.spec["objects"][up_]["params"]["usage_journey"][1], "attr": "uj_steps", "value": ["refs", list(reversed(steps_)) + steps_[:1]]}])]
        dk = rnd.choice(["first", "interior_all_active"]); classes.add("non_whole_hour_offset_zone")
        # the date is derived from the INPUTS (local start converted with pytz by the harness), not read from the library's UTC series
        from datetime import datetime as _dt, timedelta
        tz_ = E.pytz.timezone(zone)
        firsts_ = [tz_.localize(_dt.fromisoformat(h.spec["objects"][u]["params"]["hourly_usage_journey_starts"][2])).astimezone(timezone.utc) for u in ups_]
        lens_ = [len(h.spec["objects"][u]["params"]["hourly_usage_journey_starts"][1]) for u in ups_]
        if dk == "first":
            half_date = min(firsts_)
        else:
            lo = max(firsts_); hi = min(f + timedelta(hours=n - 1) for f, n in zip(firsts_, lens_))
            half_date = lo + timedelta(hours=rnd.randint(1, max(1, int((hi - lo).total_seconds() // 3600) - 1))) if hi > lo + timedelta(hours=2) else min(firsts_)
            if half_date == min(firsts_):
                dk = "first"
    if case["idx"] % 7 == 3 and not dst_case and not half_hour_case:
        # a date that certainly belongs to the modelled period: the first hour of a pattern whose (unchanged) starts feed the
        # changed input's descendants - numeric change on a job of that pattern
        ups = [u for u in h.spec["objects"][h.spec["system"]]["params"]["usage_patterns"][1] if gen.jobs_of_up(h.spec, u)]
        if ups:
            up = rnd.choice(ups); j = rnd.choice(gen.jobs_of_up(h.spec, up))
            attr = rnd.choice([a for a, v in h.spec["objects"][j]["params"].items() if v[0] == "q" and a != "request_duration" and a != "video_duration"])
            old_v = h.spec["objects"][j]["params"][attr]
            changes = [{"obj": j, "attr": attr, "value": ["q", (old_v[1] or 1.0) * 1.37, old_v[2]]}]
            dk = "first_of_dependent_pattern"
            dep_date = h.objs[up].utc_hourly_usage_journey_starts.value.index.min().to_pydatetime()
    for c in changes:
        classes.add({"q": "change_num", "h": "change_num", "ref": "change_link", "refs": "change_list", "s": "change_categorical"}.get(c["value"][0], "x"))
    if dk == "first_other_tz":
        classes.add("first_other_tz")
        d0 = sim.pick_date(rnd, h.objs, h.spec, "first")
        from datetime import timedelta
        date = d0.astimezone(timezone(timedelta(hours=rnd.choice([9, -5, 5.5, 12.75]))))
    elif dk == "first_of_dependent_pattern":
        date = dep_date
    elif dst_case and not h.build_error:
        date = dst_date
    elif half_hour_case and not h.build_error:
        date = half_date
    else:
        date = sim.pick_date(rnd, h.objs, h.spec, dk)
        if date is None:
            dk = "first"; date = sim.pick_date(rnd, h.objs, h.spec, dk)
    ctx = {"changes": sim.describe_changes(changes), "date": str(date), "date_kind": dk}
    V = []
    snap0 = observe.snapshot(sysm)
    # reference first: the same changes really made on a twin (skip when really making them is refused)
    edit = ({"op": "set", **changes[0]} if len(changes) == 1 else {"op": "group", "changes": changes})
    spec2 = copy.deepcopy(h.spec)
    edits.apply_spec(edit, spec2)
    try:
        m = E.ModelingUpdate(sim.to_library_changes(changes, h.objs), date)
    except Exception as e:
        if dk in ("before", "after", "naive"):
            # "rejected" = raises; the exception type is recorded, not prescribed (when no hourly ancestor lies outside the
            # recomputation chain the library's period is undefined and the refusal is a TypeError)
            C["outside_or_naive_refused"] += 1
            classes.add("refused_with_" + type(e).__name__)
        elif dk == "first_of_dependent_pattern" and "modeling period" in str(e):
            V.append({"kind": "a date inside the modelled period (first hour of a usage pattern that feeds the recomputed values) was refused",
                      "error": str(e)[:200], **ctx})
        else:
            C["sim_refused_valid_change"] += 1
            classes.add(f"valid_date_refused_{dk}_" + type(e).__name__)
        return {"counters": C, "classes": sorted(classes), "violations": V, "nontrivial": False,
                "digest": hashlib.md5(repr(ctx).encode()).hexdigest()[:16]}
    if dk in ("before", "after", "naive"):
        V.append({"kind": "a date outside the modelled period or a naive date was accepted", **ctx})
        return {"counters": C, "classes": sorted(classes), "violations": V, "nontrivial": True, "digest": hashlib.md5(repr(ctx).encode()).hexdigest()[:16]}
    # pairing and twin links
    if len(m.values_to_recompute) != len(m.recomputed_values):
        V.append({"kind": "values_to_recompute and recomputed_values differ in length", "lengths": [len(m.values_to_recompute), len(m.recomputed_values)], **ctx})
    for a, b in zip(m.values_to_recompute, m.recomputed_values):
        C["pairs_checked"] += 1
        try:
            m.set_updated_values()
            slot_b = (b.modeling_obj_container.name if b.modeling_obj_container is not None else None, b.attr_name_in_mod_obj_container)
            m.reset_values()
            slot_a = (a.modeling_obj_container.name if a.modeling_obj_container is not None else None, a.attr_name_in_mod_obj_container)
        except Exception as e:
            V.append({"kind": f"toggle raised {type(e).__name__}: {str(e)[:120]}", **ctx}); break
        if slot_a != slot_b or slot_a[0] is None:
            V.append({"kind": "baseline value and simulated value paired on different slots", "baseline_slot": slot_a, "simulated_slot": slot_b, **ctx}); break
        if getattr(a, "simulation_twin", None) is not b or getattr(b, "baseline_twin", None) is not a:
            V.append({"kind": "simulation_twin / baseline_twin links do not pair the recomputed values", "slot": slot_a, **ctx}); break
    nontrivial = len(m.values_to_recompute) > 0
    if V:
        return {"counters": C, "classes": sorted(classes), "violations": V[:3], "nontrivial": nontrivial, "digest": hashlib.md5(repr(ctx).encode()).hexdigest()[:16]}
    if dk == "first_of_dependent_pattern":
        C["inside_dates_accepted"] = C.get("inside_dates_accepted", 0) + 1
    elif dk.startswith("first"):
        ref, err = h.reference(h.spec)       # twin of the baseline
        if ref is not None:
            try:
                edits.apply_live(edit, ref)
            except Exception as e:
                C["twin_refused"] += 1
                ref = None
        if ref is not None:
            m.set_updated_values()
            snap_sim = observe.snapshot(sysm)
            amb = observe.ceil_boundary_ambiguous(sysm)
            m.reset_values()
            ref_sys = ref[h.spec["system"]]
            if amb or observe.ceil_boundary_ambiguous(ref_sys):
                C["boundary_skipped"] += 1
            else:
                snap_real = observe.snapshot(ref_sys)
                C["first_hour_twin_comparisons"] += 1; C["slots_compared_with_twin"] += len(snap_real)
                d = observe.diff(snap_sim, snap_real)
                if d:
                    V.append({"kind": "first-hour simulation differs from really making the change", "n_slots": len(d),
                              "slots": observe.explain_diff(snap_sim, snap_real, d), **ctx})
                nontrivial = nontrivial and bool(observe.diff(snap0, snap_sim, rtol=0))
    if not V and dk in ("interior_all_active", "first") and not any(c["value"][0] == "h" or c["attr"] in ("country", "timezone") for c in changes):
        # (a change list that itself supplies a new hourly series, or moves a pattern to another time zone - which re-times its
        # local hours -, brings its own hours: not covered by the window claim)
        C["interior_window_checks"] += 1
        import pandas as pd
        dts = pd.Timestamp(date)
        for v in m.recomputed_values:
            for x in (v.values() if isinstance(v, dict) else [v]):
                if isinstance(x, E.ExplainableHourlyQuantities) and len(x.value):
                    C["hourly_values_window_checked"] += 1
                    if x.value.index.min() < dts:
                        m.set_updated_values()
                        slot = (x.modeling_obj_container.name if x.modeling_obj_container is not None else None, x.attr_name_in_mod_obj_container)
                        m.reset_values()
                        V.append({"kind": "a simulated series holds an hour before the simulation date", "slot": slot,
                                  "first_hour": str(x.value.index.min()), **ctx})
                        break
            if V:
                break
    dg = hashlib.md5(repr((ctx["changes"], dk, sorted(classes))).encode()).hexdigest()[:16]
    return {"counters": C, "classes": sorted(classes), "violations": V[:3], "nontrivial": nontrivial, "digest": dg,
            "sample": dict(ctx, recomputed=len(m.values_to_recompute)) if case["idx"] < 4 else None}
