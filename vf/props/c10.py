"""C10 — results do not depend on the units inputs are expressed in (metamorphic differential: rebuild and live re-assignment)."""
import copy, hashlib
import numpy as np
from .. import env, gen, edits, observe
from .. import spec as SP
from ..history import Hist, case_rng
from ..spec import build, val, param_table, prune, reachable

ID = "C10"
LEVEL = "exploration"
RULE = ("case = (model containing every class, one object): every quantity-valued constructor parameter of the object (found by "
        "introspecting the signature) is re-expressed in 2-3 other units of the same dimension (kB/MB/GB/TB/bit, s/min/hour/day/year, "
        "W/kW/mW, kg/g/t, g/kWh - kg/MWh, hour/day - percent - dimensionless, 1/s - 1/min, per-gpu and per-TB variants ...). Monitors: "
        "(rebuild) the model rebuilt with the re-expressed input has physically equal calculated slots; (live) re-assigning the "
        "re-expressed value on the computed model leaves them equal; (edit) an edit to the same NUMBER in another unit and to another "
        "number in another unit equals a rebuild with that input. distinct = (class, parameter, unit); non-trivial = the parameter "
        "influences >= 1 calculated slot (a x1.37 perturbation changes the model)")
BUDGET = {"quick": 280, "thorough": 1800}
PER_CASE_TIMEOUT = {"quick": 200, "thorough": 500}
CANDS = ["kB", "MB", "GB", "TB", "bit", "dimensionless", "percent", "s", "min", "hour", "day", "year", "W", "kW", "mW", "kg", "g", "tonne",
         "g/kWh", "kg/MWh", "kg/kWh", "kWh/GB", "Wh/MB", "kWh/TB", "kg/TB", "g/GB", "W/TB", "mW/GB", "hour/day", "min/hour", "1/s", "1/min",
         "cpu_core", "gpu", "W/gpu", "kW/gpu", "GB/gpu", "MB/gpu", "kg/gpu", "g/gpu", "cpu_core*s/GB", "cpu_core*min/TB", "kilocpu_core", "Wh", "kWh", "J"]


def cases(tier, seed):
    E = env.load()
    from .c14 import system_for
    nsys = 1 if tier == "quick" else 5
    cs = []
    for s in range(nsys):
        spec = c10_spec(case_rng(seed, s, "C10"))
        for n, o in spec["objects"].items():
            if o["cls"] != "System":
                cs.append({"sys": s, "obj": n, "cls": o["cls"]})
    return [dict(c, seed=seed, idx=i, tier=tier) for i, c in enumerate(cs)]


def c10_spec(rnd):
    from .c14 import system_for
    spec = system_for({}, rnd)
    # durations longer than one hour, so that re-expressing them in days / years gives magnitudes below 1 (and above 1 in seconds)
    spec["objects"]["jplain"]["params"]["request_duration"] = ["q", 4000, "s"]
    spec["objects"]["jvid"]["params"]["video_duration"] = ["q", 90, "min"]
    return spec


def requirements(tier):
    k = 1 if tier == "quick" else 4
    return {"min_counters": {"parameters_covered": 90 * k, "rebuild_comparisons": 200 * k, "live_reassignments": 200 * k, "unit_edits": 150 * k,
                             "influential_parameters": 60 * k},
            "required_classes": ["dim_[time]", "dim_dimensionless", "dim_[mass]", "same_number_other_unit", "fixed_count_in_percent", "zero_default_made_nonzero"]}


def alternatives(E, unit, n=3):
    q0 = 1 * E.u(unit)
    out = []
    for c in CANDS:
        try:
            qc = 1 * E.u(c)
        except Exception:
            continue
        if qc.dimensionality == q0.dimensionality and qc.units != q0.units:
            out.append(c)
    # prefer units of the same family first (same base units up to scale), then dimension-equivalent exotic ones
    def fam(c):
        return 0 if str((1 * E.u(c)).to_base_units().units) == str(q0.to_base_units().units) else 1
    out.sort(key=lambda c: (fam(c), CANDS.index(c)))
    return out[:n]


def reexpress(E, vs, unit):
    q = (vs[1] * E.u(vs[2])).to(unit)
    return ["q", float(q.magnitude), unit]


def run_case(case):
    E = env.load()
    from .c14 import system_for
    rnd = case_rng(case["seed"], case["sys"], "C10")
    spec = c10_spec(rnd)
    # an on-premise server with a fixed count (normalised in __init__, read raw later) makes that parameter matter
    h = Hist(rnd, case["tier"], spec=spec, id_seed=case["seed"] * 100 + case["sys"])
    C = {k: 0 for k in ("parameters_covered", "rebuild_comparisons", "live_reassignments", "unit_edits", "influential_parameters",
                        "boundary_skipped", "no_alternative_unit", "refused", "build_failed", "zero_defaults_made_nonzero")}
    classes = set()
    if h.build_error:
        return {"counters": dict(C, build_failed=1), "classes": [], "violations": [{"kind": "the all-classes model failed to build", "error": h.build_error}]}
    n = case["obj"]
    if h.spec["objects"][n]["cls"] in SP.SERVER_CLS + ("Storage",) and not isinstance(h.objs[n].nb_of_instances, E.EmptyExplainableObject) \
            and h.spec["objects"][n]["params"].get("server_type", ["s", "on-premise"])[1] == "on-premise":
        need = float(np.max(np.asarray(h.objs[n].nb_of_instances.value["value"].values._data, dtype=float)))
        e = {"op": "set", "obj": n, "attr": "fixed_nb_of_instances", "value": ["q", need + 2, "dimensionless"], "kind": "num"}
        if h.apply(e) is None:
            classes.add("fixed_count_in_percent")
    sysm = h.system
    base_snap = observe.snapshot(sysm)
    base_amb = observe.ceil_boundary_ambiguous(sysm)
    V, done = [], []
    P = h.spec["objects"][n]["params"]
    for p, vs in list(P.items()):
        if vs[0] != "q" or V:
            continue
        C["parameters_covered"] += 1
        if vs[1] == 0:
            # a zero is the same in every unit: give the parameter a value first (kept for the rest of the case) so that the unit matters
            nzv = ["q", 1.37, vs[2]]
            if h.apply({"op": "set", "obj": n, "attr": p, "value": nzv, "kind": "num"}) is None:
                vs = nzv; classes.add("zero_default_made_nonzero"); C["zero_defaults_made_nonzero"] += 1
                base_snap = observe.snapshot(sysm); base_amb = observe.ceil_boundary_ambiguous(sysm)
        alts = alternatives(E, vs[2])
        if not alts:
            C["no_alternative_unit"] += 1
            continue
        classes.add("dim_" + str((1 * E.u(vs[2])).dimensionality))
        # does the parameter matter at all? (x1.37)
        s_p = copy.deepcopy(h.spec); s_p["objects"][n]["params"][p] = ["q", vs[1] * 1.37 if vs[1] else 1.37, vs[2]]
        refp, _ = h.reference(s_p)
        influential = refp is not None and bool(observe.diff(base_snap, observe.snapshot(refp[h.spec["system"]])))
        C["influential_parameters"] += int(influential)
        for unit in alts:
            new = reexpress(E, vs, unit)
            ident = {"object": n, "class": case["cls"], "parameter": p, "original": vs[1:], "re_expressed": new[1:]}
            done.append((p, vs[2], unit))
            # (rebuild)
            s2 = copy.deepcopy(h.spec); s2["objects"][n]["params"][p] = new
            ref, err = h.reference(s2)
            if ref is None:
                V.append({"kind": "model refused when an input is re-expressed in another unit", "error": err, **ident}); break
            if base_amb or observe.ceil_boundary_ambiguous(ref[h.spec["system"]]):
                C["boundary_skipped"] += 1
            else:
                C["rebuild_comparisons"] += 1
                sn = observe.snapshot(ref[h.spec["system"]])
                d = observe.diff(base_snap, sn)
                if d:
                    V.append({"kind": "calculated values depend on the unit an input is expressed in (rebuild)", "n_slots": len(d),
                              "slots": observe.explain_diff(sn, base_snap, d), **ident}); break
            # (live) re-assign the re-expressed value, then put the original back
            try:
                setattr(h.objs[n], p, val(new)); C["live_reassignments"] += 1
                if not (base_amb or observe.ceil_boundary_ambiguous(sysm)):
                    sl = observe.snapshot(sysm)
                    d = observe.diff(base_snap, sl)
                    if d:
                        V.append({"kind": "calculated values depend on the unit an input is expressed in (live re-assignment)", "n_slots": len(d),
                                  "slots": observe.explain_diff(sl, base_snap, d), **ident}); break
                setattr(h.objs[n], p, val(vs))
            except Exception as e:
                V.append({"kind": f"re-assigning a re-expressed input raised {type(e).__name__}: {str(e)[:160]}", **ident}); break
        if V:
            break
        # (edit) same NUMBER in another unit / another number in another unit: must equal a rebuild with that input
        for unit, mag, tag in ((alts[0], vs[1], "same_number_other_unit"), (alts[-1], vs[1] * 1.37 if vs[1] else 1.37, "other_number_other_unit")):
            new = ["q", mag, unit]
            if p in edits.CAP_HOURS and edits.hours_of(new) > edits.CAP_HOURS[p]:
                continue
            s2 = copy.deepcopy(h.spec); s2["objects"][n]["params"][p] = new
            ref, err = h.reference(s2)
            if ref is None:
                C["refused"] += 1
                continue
            try:
                setattr(h.objs[n], p, val(new))
            except Exception:
                C["refused"] += 1
                continue
            C["unit_edits"] += 1; classes.add(tag)
            if not (observe.ceil_boundary_ambiguous(sysm) or observe.ceil_boundary_ambiguous(ref[h.spec["system"]])):
                sl, sr = observe.snapshot(sysm), observe.snapshot(ref[h.spec["system"]])
                d = observe.diff(sl, sr)
                if d:
                    V.append({"kind": "an edit given in another unit is not interpreted with its unit (live != rebuild)", "variant": tag, "n_slots": len(d),
                              "slots": observe.explain_diff(sl, sr, d), "object": n, "parameter": p, "from": vs[1:], "to": new[1:]}); break
            try:
                setattr(h.objs[n], p, val(vs))
            except Exception as e:
                V.append({"kind": f"putting the original value back raised {type(e).__name__}", "object": n, "parameter": p}); break
            if not base_amb and not observe.ceil_boundary_ambiguous(sysm) and observe.diff(base_snap, observe.snapshot(sysm)):
                V.append({"kind": "model differs after an edit and its reversal", "object": n, "parameter": p, "to": new[1:]}); break
    return {"counters": C, "classes": sorted(classes), "violations": V[:3], "nontrivial": C["influential_parameters"] > 0,
            "digest": hashlib.md5(repr((case["sys"], n, done)).encode()).hexdigest()[:16],
            "sample": {"object": n, "class": case["cls"], "re_expressions": done[:8]} if case["idx"] % 6 == 0 else None}
