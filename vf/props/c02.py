"""C02 — the system footprint accounts for every component exactly once (invariant at quiescent points)."""
import math
import numpy as np
from .. import env, gen, edits, observe
from ..history import Hist, case_rng
from ..spec import reachable, SERVER_CLS, JOB_CLS
from ..series import S, scal, base, add, scale, total, mismatch, maxabs

ID = "C02"
LEVEL = "exploration"
RULE = ("case = random sharing topology + edit history (incl. edits built to be refused during recomputation); at every quiescent point "
        "(after the build, after every accepted or refused edit) the monitor walks the harness' own record of the links, sums the "
        "published per-object footprints itself (plain floats keyed by timestamp) and compares with total_footprint, the five "
        "aggregate views, finiteness/sign, and energy x intensity recomputed from published energies. distinct = digest of the final "
        "snapshot; non-trivial = an object is shared between usage patterns (server, network, country, device, journey or job)")
BUDGET = {"quick": 240, "thorough": 1500}
N = {"quick": 160, "thorough": 2400}
EDITS = {"quick": 6, "thorough": 10}


def cases(tier, seed):
    return [{"seed": seed, "idx": i, "tier": tier, "n_edits": EDITS[tier]} for i in range(N[tier])]


def requirements(tier):
    return {"min_counters": {"invariant_evaluations": 500 if tier == "quick" else 8000, "intensity_checks": 1000, "after_refused_edit": 5},
            "required_classes": ["server_shared_by_patterns", "network_shared", "device_shared", "country_shared", "multi_timezone",
                                 "job_shared_by_2_patterns", "disjoint_windows", "builder_model"]}


def check_system(system, objs, spec):
    """returns (violations, counters)"""
    E = env.load()
    V = []
    C = {"invariant_evaluations": 1, "intensity_checks": 0, "objects_walked": 0}
    O = spec["objects"]
    names = reachable(spec)
    servers = [n for n in names if O[n]["cls"] in SERVER_CLS]
    storages = [n for n in names if O[n]["cls"] == "Storage"]
    networks = [n for n in names if O[n]["cls"] == "Network"]
    patterns = [n for n in names if O[n]["cls"] == "UsagePattern"]
    C["objects_walked"] = len(servers) + len(storages) + len(networks) + len(patterns)
    cats = {"Servers": servers, "Storage": storages, "Network": networks, "Devices": patterns}
    en = {n: S(objs[n].energy_footprint) for n in servers + storages + networks + patterns}
    fab = {n: S(objs[n].instances_fabrication_footprint) for n in servers + storages + patterns}
    # (a) hourly total
    tot = {}
    for n in en:
        tot = add(tot, en[n])
    for n in fab:
        tot = add(tot, fab[n])
    live_tot = S(system.total_footprint)
    mm = mismatch(live_tot, tot, rtol=1e-9, atol=observe.TOTAL_FOOTPRINT_ATOL)
    if mm:
        V.append({"kind": "total_footprint != sum of components", "at": mm[0], "published": mm[1], "monitor_sum": mm[2]})
    # (b) one key per object and category
    ef, ff = system.energy_footprints, system.fabrication_footprints
    for cat, ns in cats.items():
        ids = sorted(objs[n].id for n in ns)
        if sorted(ef[cat].keys()) != ids:
            V.append({"kind": "energy_footprints keys", "category": cat, "expected": ids, "published": sorted(ef[cat].keys())})
        if cat != "Network" and sorted(ff[cat].keys()) != ids:
            V.append({"kind": "fabrication_footprints keys", "category": cat, "expected": ids, "published": sorted(ff[cat].keys())})
        for n in ns:
            if objs[n].id in ef[cat] and mismatch(S(ef[cat][objs[n].id]), en[n]):
                V.append({"kind": "energy_footprints entry differs from the object's energy_footprint", "object": n})
    # (c) category totals and sums over period
    tef, tff = system.total_energy_footprints, system.total_fabrication_footprints
    efs, ffs = system.energy_footprint_sum_over_period, system.fabrication_footprint_sum_over_period
    tefs, tffs = system.total_energy_footprint_sum_over_period, system.total_fabrication_footprint_sum_over_period
    for cat, ns in cats.items():
        e_sum, f_sum = {}, {}
        for n in ns:
            e_sum = add(e_sum, en[n])
            if cat != "Network":
                f_sum = add(f_sum, fab[n])
        for label, pub, mine in (("total_energy_footprints", tef[cat], e_sum), ("total_fabrication_footprints", tff[cat], f_sum)):
            mm = mismatch(S(pub), mine)
            if mm:
                V.append({"kind": f"{label}[{cat}] != sum over objects", "at": mm[0], "published": mm[1], "monitor_sum": mm[2]})
        for label, pub, mine in (("total_energy_footprint_sum_over_period", tefs[cat], total(e_sum)),
                                 ("total_fabrication_footprint_sum_over_period", tffs[cat], total(f_sum))):
            p = scal(pub)
            if abs(p - mine) > 1e-9 * max(abs(p), abs(mine), maxabs(e_sum, f_sum)):
                V.append({"kind": f"{label}[{cat}] != sum", "published": p, "monitor_sum": mine})
        for n in ns:
            i = objs[n].id
            p = scal(efs[cat][i]) if i in efs[cat] else None
            if p is None or abs(p - total(en[n])) > 1e-9 * max(abs(p), maxabs(en[n])):
                V.append({"kind": "energy_footprint_sum_over_period entry", "object": n, "published": p, "monitor_sum": total(en[n])})
            if cat != "Network":
                p = scal(ffs[cat][i]) if i in ffs[cat] else None
                if p is None or abs(p - total(fab[n])) > 1e-9 * max(abs(p), maxabs(fab[n])):
                    V.append({"kind": "fabrication_footprint_sum_over_period entry", "object": n, "published": p, "monitor_sum": total(fab[n])})
    # (d) finite, non negative when nothing deletes data
    deleting = any(O[j]["cls"] in JOB_CLS and O[j]["params"].get("data_stored", ["q", 0])[1] < 0 for j in names)
    for n, s in list(en.items()) + list(fab.items()) + [("system.total_footprint", live_tot)]:
        for t, x in s.items():
            if not math.isfinite(x):
                V.append({"kind": "non-finite footprint", "object": n, "at": t}); break
            if not deleting and x < -1e-12 * max(1.0, maxabs(s)):
                V.append({"kind": "negative footprint without deleting job", "object": n, "at": t, "value": x}); break
    # (e) energy footprint = energy x the carbon intensity that applies
    def intensity_of(n):
        return base(O[n]["params"]["average_carbon_intensity"])
    for n in servers:
        C["intensity_checks"] += 1
        mm = mismatch(en[n], scale(S(objs[n].instances_energy), intensity_of(n)))
        if mm:
            V.append({"kind": "server energy_footprint != instances_energy x its carbon intensity", "object": n, "at": mm[0], "published": mm[1], "expected": mm[2]})
    for n in storages:
        srv = [s for s in servers if O[s]["params"]["storage"][1] == n]
        if len(srv) == 1:
            C["intensity_checks"] += 1
            mm = mismatch(en[n], scale(S(objs[n].instances_energy), intensity_of(srv[0])))
            if mm:
                V.append({"kind": "storage energy_footprint != instances_energy x its server's carbon intensity", "object": n, "at": mm[0], "published": mm[1], "expected": mm[2]})
    for n in patterns:
        C["intensity_checks"] += 1
        ci = intensity_of(O[n]["params"]["country"][1])
        mm = mismatch(en[n], scale(S(objs[n].devices_energy), ci))
        if mm:
            V.append({"kind": "pattern energy_footprint != devices_energy x country intensity", "object": n, "at": mm[0], "published": mm[1], "expected": mm[2]})
        if mismatch(S(objs[n].devices_energy_footprint), en[n]) or mismatch(S(objs[n].devices_fabrication_footprint), fab[n]):
            V.append({"kind": "pattern footprint != devices footprint", "object": n})
    for n in networks:
        C["intensity_checks"] += 1
        exp = {}
        bei = base(O[n]["params"]["bandwidth_energy_intensity"])
        for up in patterns:
            if O[up]["params"]["network"][1] != n:
                continue
            ci = intensity_of(O[up]["params"]["country"][1])
            for j in set(gen.jobs_of_up(spec, up)):
                d = objs[j].hourly_data_transferred_per_usage_pattern
                key = [k for k in d if k.name == up]
                if key:
                    exp = add(exp, S(d[key[0]]), bei * ci)
        mm = mismatch(en[n], exp)
        if mm:
            V.append({"kind": "network energy_footprint != sum_pattern intensity x data x country intensity", "object": n, "at": mm[0], "published": mm[1], "expected": mm[2]})
    return V, C


def run_case(case):
    rnd = case_rng(case["seed"], case["idx"], "C02")
    spec0 = None
    if case["idx"] % 8 == 5:
        from .c17 import builder_spec
        spec0 = builder_spec(rnd)
    h = Hist(rnd, case["tier"], spec=spec0)
    C = {"invariant_evaluations": 0, "intensity_checks": 0, "objects_walked": 0, "after_refused_edit": 0, "edits_applied": 0, "build_failed": 0}
    classes = set(gen.topo_classes(h.spec)) | ({"builder_model"} if spec0 is not None else set())
    if h.build_error:
        C["build_failed"] = 1
        return {"counters": C, "classes": sorted(classes), "violations": []}
    V = []

    def evaluate(tag):
        v, c = check_system(h.system, h.objs, h.spec)
        for k, x in c.items():
            C[k] += x
        for item in v[:4]:
            item["when"] = tag; item["history"] = h.log[-8:]
            V.append(item)
    evaluate("after build")
    for k in range(case["n_edits"]):
        if V:
            break
        risky = rnd.random() < 0.3
        e = edits.risky_edit(rnd, h.spec, h.objs) if risky else h.propose()
        if e is None:
            continue
        spec_before = h.spec
        exc = h.apply(e)
        if exc is not None:
            C["after_refused_edit"] += 1
            evaluate("after refused edit " + edits.describe(e))
            continue
        C["edits_applied"] += 1
        classes.add("edit_" + e.get("kind", "?"))
        evaluate("after " + edits.describe(e))
        # known finding F3: the network of a pattern that had no job and is given jobs is not recomputed
        from .c01 import f3_networks
        nets = f3_networks(spec_before, h.spec)
        for v in V:
            if nets and v["kind"].startswith("network energy_footprint !=") and v.get("object") in nets:
                v["mechanism"] = "F3-network-of-jobless-pattern-not-recomputed"
    shared = classes & {"server_shared_by_patterns", "network_shared", "device_shared", "country_shared", "journey_shared", "job_shared_by_2_patterns"}
    return {"counters": C, "classes": sorted(classes), "violations": V, "nontrivial": bool(shared),
            "digest": observe.digest(observe.snapshot(h.system)), "sample": h.summary() if case["idx"] < 3 else None}


def witness(fid):
    from .c01 import witness as w
    return w(fid)
