"""C13 — saving a system to JSON and loading it back loses nothing (round-trip differential)."""
import copy, json, hashlib, collections
import numpy as np
from .. import env, gen, edits, observe
from ..history import Hist, case_rng
from .c01 import f3_mechanism

ID = "C13"
LEVEL = "exploration"
RULE = ("case = generated system (every 3rd with all builder classes; shared objects, repeated steps / jobs, job-less steps, several zones, "
        "non-integer hourly inputs, tiny and huge quantities), half of them after an edit history, saved with and without calculated "
        "attributes through json.dumps/loads. Monitors: same objects / ids / names / classes / links (order and multiplicity of lists) / "
        "labels / sources / scalar inputs (1e-12) / hourly inputs (3-decimal rounding); recomputed results equal the original's; "
        "re-export equals the first export; edits on the loaded system equal a rebuild from the spec; the file rewritten as a v9 file "
        "(version 9.x, Device -> Hardware) loads to the same model. distinct = final snapshot digest + mode; non-trivial = the system "
        "has >= 1 non-zero footprint")
BUDGET = {"quick": 280, "thorough": 2000}
N = {"quick": 90, "thorough": 1500}


def cases(tier, seed):
    return [{"seed": seed, "idx": i, "tier": tier} for i in range(N[tier])]


def requirements(tier):
    k = 1 if tier == "quick" else 15
    return {"min_counters": {"round_trips": 170 * k, "objects_compared": 2500 * k, "inputs_compared": 10000 * k, "results_compared": 170 * k,
                             "re_exports_compared": 170 * k, "edits_on_loaded_system": 120 * k, "v9_files_loaded": 80 * k, "after_history": 30 * k},
            "required_classes": ["builders", "job_shared_by_2_patterns", "step_repeated_in_journey", "job_repeated_in_step", "jobless_step",
                                 "multi_timezone", "non_integer_hourly_input", "sources_same_name_other_link"]}


def norm_export(d):
    """canonical form of an export for re-export comparison: edge lists as multisets, restricted to objects present in the file
    (an object that an edit history has disconnected from the system is not exported, while values that it still depends on keep
    listing it: such dangling ids cannot survive a round trip and are outside the comparison)"""
    present = {i for c, objs in d.items() if isinstance(objs, dict) for i in objs}

    def keep(edge_id):
        return edge_id.split("-in-", 1)[-1] in present

    def walk(x):
        if isinstance(x, dict):
            entries = [v for v in x.values() if isinstance(v, dict) and "direct_children_with_id" in v and "id" in v]
            if len(entries) >= 2 and len(entries) == len(x) and len({v["id"] for v in entries}) == 1:
                # entries of one per-pattern dict share one id and are ONE node of the graph: which entry an edge is registered on
                # depends on iteration order, so every entry is given the union of the node's edges
                for key in ("direct_ancestors_with_id", "direct_children_with_id"):
                    union = sorted({e for v in entries for e in v[key]})
                    x = {k: dict(v, **{key: union}) for k, v in x.items()}
            return {k: (sorted(e for e in v if keep(e)) if k in ("direct_ancestors_with_id", "direct_children_with_id") else walk(v)) for k, v in x.items()
                    if not (isinstance(v, dict) and v.get("value", 0) is None and set(v) <= {"label", "value", "id", "direct_ancestors_with_id", "direct_children_with_id"} and False)}
        if isinstance(x, list):
            return [walk(v) for v in x]
        if isinstance(x, float):
            return float(f"{x:.12g}")
        return x
    return walk(d)


def compare_objects(E, orig_objs, loaded, V, C, ctx):
    """orig_objs: list of original ModelingObjects; loaded: {id: object}"""
    by_id = {o.id: o for o in orig_objs}
    if set(by_id) != set(loaded):
        V.append({"kind": "object set differs after the round trip", "missing": sorted(set(by_id) - set(loaded))[:4], "extra": sorted(set(loaded) - set(by_id))[:4], **ctx})
        return
    for i, o in by_id.items():
        l = loaded[i]
        C["objects_compared"] += 1
        if type(l).__name__ != type(o).__name__ or l.name != o.name:
            V.append({"kind": "class or name differs", "id": i, "original": [type(o).__name__, o.name], "loaded": [type(l).__name__, l.name], **ctx}); continue
        calc = set(o.calculated_attributes)
        for k, v in o.__dict__.items():
            if k in observe.INTERNAL or k in observe.BOOKKEEPING or k in calc:
                continue
            lv = l.__dict__.get(k)
            C["inputs_compared"] += 1
            if isinstance(v, E.ContextualModelingObjectAttribute):
                if not isinstance(lv, E.ContextualModelingObjectAttribute) or lv.id != v.id:
                    V.append({"kind": "link differs", "object": o.name, "attribute": k, "original": v.id, "loaded": getattr(lv, "id", None), **ctx})
            elif isinstance(v, list):
                if not isinstance(lv, list) or [x.id for x in lv] != [x.id for x in v]:
                    V.append({"kind": "list of links differs (order / multiplicity)", "object": o.name, "attribute": k, "original": [x.name for x in v],
                              "loaded": [x.name for x in lv] if isinstance(lv, list) else None, **ctx})
            elif isinstance(v, E.ExplainableObject):
                if not isinstance(lv, E.ExplainableObject):
                    V.append({"kind": "input missing after the round trip", "object": o.name, "attribute": k, **ctx}); continue
                if lv.label != v.label:
                    V.append({"kind": "label differs", "object": o.name, "attribute": k, "original": v.label, "loaded": lv.label, **ctx})
                so, sl = getattr(v, "source", None), getattr(lv, "source", None)
                if (so is None) != (sl is None) or (so is not None and (so.name, so.link) != (sl.name, sl.link)):
                    V.append({"kind": "source differs", "object": o.name, "attribute": k, **ctx})
                ro, rl = observe.vrepr(v), observe.vrepr(lv)
                if ro[0] == "q":
                    if rl[0] != "q" or ro[1] != rl[1] or abs(ro[2] - rl[2]) > 1e-12 * max(abs(ro[2]), abs(rl[2])):
                        V.append({"kind": "scalar input differs after the round trip", "object": o.name, "attribute": k, "original": str(ro), "loaded": str(rl), **ctx})
                elif ro[0] == "h":
                    unit_scale = float((1 * v.unit).to_base_units().magnitude)
                    if rl[0] != "h" or ro[3] != rl[3] or np.max(np.abs(ro[4] - rl[4])) > 5.0001e-4 * unit_scale:
                        V.append({"kind": "hourly input differs by more than the 3-decimal rounding", "object": o.name, "attribute": k, **ctx})
                elif ro != rl:
                    V.append({"kind": "input differs after the round trip", "object": o.name, "attribute": k, "original": str(ro), "loaded": str(rl), **ctx})
            elif v is None or isinstance(v, str):
                if lv != v:
                    V.append({"kind": "plain attribute differs", "object": o.name, "attribute": k, **ctx})
        if len(V) > 4:
            return


def run_case(case):
    E = env.load()
    rnd = case_rng(case["seed"], case["idx"], "C13")
    spec = None
    classes = set()
    if case["idx"] % 3 == 1:
        from .c17 import builder_spec
        spec = builder_spec(rnd); classes.add("builders")
    if spec is None:
        spec = gen.rand_spec(rnd, case["tier"], max_len=50)
    # sources that share a name but not a link (one "datasheet" per piece of hardware), some without link
    k_ = 0
    for n_, o_ in spec["objects"].items():
        for p_, vs_ in o_["params"].items():
            if vs_[0] == "q" and len(vs_) == 3 and rnd.random() < 0.15:
                o_["params"][p_] = vs_ + [{"source": ["Manufacturer datasheet", f"https://example.org/datasheet/{k_}" if k_ % 5 else None]}]; k_ += 1
    if k_ >= 2:
        classes.add("sources_same_name_other_link")
    h = Hist(rnd, case["tier"], spec=spec, max_len=50)
    C = {k: 0 for k in ("round_trips", "objects_compared", "inputs_compared", "results_compared", "re_exports_compared", "edits_on_loaded_system",
                        "v9_files_loaded", "after_history", "build_failed", "boundary_skipped")}
    if h.build_error:
        return {"counters": dict(C, build_failed=1), "classes": sorted(classes), "violations": []}
    ups = [n for n, o in h.spec["objects"].items() if o["cls"] == "UsagePattern"]
    e = {"op": "set", "obj": ups[0], "attr": "hourly_usage_journey_starts", "kind": "starts",
         "value": ["h", [x + 0.23456 for x in h.spec["objects"][ups[0]]["params"]["hourly_usage_journey_starts"][1]],
                   *h.spec["objects"][ups[0]]["params"]["hourly_usage_journey_starts"][2:]]}
    if h.apply(e) is None:
        classes.add("non_integer_hourly_input")
    f3_nets = set()
    if case["idx"] % 2 == 0:
        C["after_history"] = 1
        for _ in range(4):
            sb_ = h.spec
            if h.apply(h.propose()) is not None:
                break
            from .c01 import f3_networks
            f3_nets |= f3_networks(sb_, h.spec)
    classes |= set(gen.topo_classes(h.spec))
    sysm = h.system
    orig_objs = observe.all_objects(sysm)
    snap0 = observe.snapshot(sysm)
    V = []
    nonzero = any(r[0] == "h" and np.any(r[4]) for r in snap0.values())
    for mode in (False, True):
        ctx = {"save_calculated_attributes": mode, "history": h.log[-5:]}
        try:
            exported = E.system_to_json(sysm, save_calculated_attributes=mode)
            text = json.dumps(exported)
            class_dict, flat = E.json_to_system(json.loads(text))
        except Exception as ex:
            import traceback
            if "superior to the number of instances specified" in str(ex) and observe.ceil_boundary_ambiguous(sysm):
                C["boundary_skipped"] += 1; break      # a fixed count equal to the need within the floating-point boundary (DESIGN §2.5)
            V.append({"kind": f"round trip raised {type(ex).__name__}: {str(ex)[:200]}", "trace": traceback.format_exc()[-500:], **ctx}); break
        C["round_trips"] += 1
        compare_objects(E, orig_objs, flat, V, C, ctx)
        if V:
            break
        lsys = list(class_dict["System"].values())[0]
        # recomputed results
        C["results_compared"] += 1
        snapl = observe.snapshot(lsys)
        if observe.ceil_boundary_ambiguous(sysm) or observe.ceil_boundary_ambiguous(lsys):
            C["boundary_skipped"] += 1
        else:
            d = observe.diff(snap0, snapl, rtol=1e-6)       # hourly inputs were rounded to 3 decimals
            # rounding an hourly input by 5e-4 moves results by up to 5e-4/value: compare with a tolerance scaled on the inputs' rounding
            d = [k for k in d if not observe.close(snap0.get(k), snapl.get(k), rtol=2e-3)] if "non_integer_hourly_input" in classes else d
            if d:
                # known finding F3: the ORIGINAL is stale (network of a pattern that was given its first jobs), the loaded system is right
                mech = ("F3-network-of-jobless-pattern-not-recomputed" if f3_nets and set(d) <= ({(n_, "energy_footprint") for n_ in f3_nets}
                                                                                                 | {(h.spec["system"], "total_footprint")}) else None)
                V.append({"kind": "recomputed results of the loaded system differ from the original's", "n_slots": len(d),
                          "slots": observe.explain_diff(snapl, snap0, d), "mechanism": mech, **ctx}); break
        # re-export
        C["re_exports_compared"] += 1
        re_exported = json.loads(json.dumps(E.system_to_json(lsys, save_calculated_attributes=mode)))
        a, b = norm_export(json.loads(text)), norm_export(re_exported)
        if mode is False and a != b:
            diffs = [(c, k) for c in a if c != "efootprint_version" for k in a[c] if a[c].get(k) != b.get(c, {}).get(k)]
            V.append({"kind": "re-export of the loaded system differs from the first export", "first_differences": diffs[:3], **ctx}); break
        if mode is True:
            # with calculated attributes the hourly results are recomputed from rounded inputs: compare structure (keys, ids, edge multisets)
            # A value that is empty ("value": null) carries no number; whether it is the constructor's default or the result of
            # an update rule run on empty operands depends on whether the object was ever in a computation chain (a network whose
            # pattern lost all its jobs keeps a computed empty value, a freshly loaded one is never computed): such nodes and
            # the edges to them are left out of the structural comparison.
            empties = set()

            def find_empty(x):
                if isinstance(x, dict):
                    if "id" in x and "direct_children_with_id" in x and x.get("value", 0) is None and "unit" not in x:
                        empties.add(x["id"])
                    for v in x.values():
                        find_empty(v)
            find_empty(a); find_empty(b)

            def skeleton(x):
                if isinstance(x, dict):
                    if x.get("id") in empties and "direct_children_with_id" in x:
                        return {"id": x["id"]}
                    return {k: ([e for e in v if e not in empties] if k in ("direct_ancestors_with_id", "direct_children_with_id") else skeleton(v))
                            for k, v in x.items() if k not in ("values", "value")}
                if isinstance(x, list):
                    return [skeleton(v) for v in x]
                return x
            if skeleton(a) != skeleton(b):
                sa, sb = skeleton(a), skeleton(b)
                diffs = [(c, k) for c in sa if c != "efootprint_version" for k in sa[c] if sa[c].get(k) != sb.get(c, {}).get(k)]
                V.append({"kind": "re-export (with calculated attributes) differs in structure from the first export", "first_differences": diffs[:3], **ctx}); break
        # v9 file
        if mode is False:
            v9 = json.loads(text)
            v9["efootprint_version"] = "9.1.4"
            if "Device" in v9:
                v9["Hardware"] = v9.pop("Device")
            try:
                cd9, flat9 = E.json_to_system(v9, efootprint_classes_dict=None)
                C["v9_files_loaded"] += 1
                s9 = observe.snapshot(list(cd9["System"].values())[0])
                d = observe.diff(snapl, s9, rtol=1e-12)
                if d and not (observe.ceil_boundary_ambiguous(lsys)):
                    V.append({"kind": "the same file written as a v9 file loads to a different model", "n_slots": len(d), **ctx}); break
            except Exception as ex:
                V.append({"kind": f"v9 file could not be loaded: {type(ex).__name__}: {str(ex)[:160]}", **ctx}); break
        # the loaded system is live: edits behave as on a freshly built one
        if mode is False and not V:
            lobjs = {o.name: o for o in flat.values()}
            hl = copy.copy(h)
            hl.objs = lobjs; hl.system = lsys; hl.spec = copy.deepcopy(h.spec); hl.log = []
            for _ in range(3):
                e = hl.propose(["num", "num", "link", "list_mut", "list_assign", "starts"])
                if any(x not in lobjs for x in ([e["obj"]] if e["op"] != "group" else [c["obj"] for c in e["changes"]])):
                    continue
                sb, sa = hl.spec, hl.spec_after(e)
                ref, err = hl.reference(sa)
                if ref is None:
                    continue
                if hl.apply(e, sa) is not None:
                    break
                C["edits_on_loaded_system"] += 1
                if observe.ceil_boundary_ambiguous(lsys) or observe.ceil_boundary_ambiguous(ref[hl.spec["system"]]):
                    continue
                s1, s2 = observe.snapshot(lsys), observe.snapshot(ref[hl.spec["system"]])
                d = [k for k in observe.diff(s1, s2, rtol=1e-6) if not observe.close(s1.get(k), s2.get(k), rtol=2e-3)]
                if d:
                    V.append({"kind": "an edit on the loaded system does not behave as on a freshly built one", "edit": edits.describe(e), "n_slots": len(d),
                              "slots": observe.explain_diff(s1, s2, d), "mechanism": f3_mechanism(sb, sa, d), **ctx}); break
    dg = hashlib.md5((observe.digest(snap0) + repr(sorted(classes))).encode()).hexdigest()[:16]
    return {"counters": C, "classes": sorted(classes), "violations": V[:3], "nontrivial": nonzero, "digest": dg,
            "sample": h.summary() if case["idx"] < 3 else None}


def witness(fid):
    from .c01 import witness as w
    return w(fid)
