"""C01 — incremental recomputation equals recomputation from scratch (history + executable model: rebuild from spec)."""
import copy
from .. import env, gen, edits, observe
from ..history import Hist, case_rng
from ..spec import prune

ID = "C01"
LEVEL = "exploration"
RULE = ("case = random sharing topology (gen.rand_spec) + random edit history (numeric / link / list-assign / list mutators / grouped "
        "updates / no-ops / undo); after EVERY accepted edit every calculated slot of the live system is compared with a system "
        "freshly built from the harness' own record of the inputs. distinct = digest of final live snapshot + edit kinds; "
        "non-trivial = at least one edit of the history changed at least one calculated slot")
BUDGET = {"quick": 280, "thorough": 2400}
PER_CASE_TIMEOUT = {"quick": 150, "thorough": 400}
N = {"quick": 120, "thorough": 2400}
EDITS = {"quick": 8, "thorough": 14}
ASSUMPTIONS = ["the from-scratch computation (System.after_init) is the reference here; its own correctness is the business of C02/C03/C04/C12/C18",
               "comparisons whose ceil argument sits within 1e-6 of an integer are skipped and counted (floating point decides them)"]


def cases(tier, seed):
    # every 4th history is dominated by grouped updates (several changes in one ModelingUpdate)
    return [{"seed": seed, "idx": i, "tier": tier, "n_edits": EDITS[tier],
             "mix": ["group", "group", "group", "num", "link", "list_assign"] if i % 4 == 3 else None} for i in range(N[tier])]


def requirements(tier):
    return {"min_counters": {"rebuild_comparisons": 300 if tier == "quick" else 5000, "undo_checks": 20, "previous_total_checks": 50,
                             "initial_total_checks": 50},
            "required_classes": ["job_shared_by_2_patterns", "server_shared_by_patterns", "jobless_pattern", "multi_timezone",
                                 "network_shared", "edit_list_mut", "edit_group", "edit_link", "edit_num", "builder_model"]}


def totals(system):
    return {"energy": {k: observe.vrepr(v) for k, v in system.total_energy_footprint_sum_over_period.items()},
            "fabrication": {k: observe.vrepr(v) for k, v in system.total_fabrication_footprint_sum_over_period.items()}}


def totals_attr(system, prefix):
    return {"energy": {k: observe.vrepr(v) for k, v in getattr(system, f"{prefix}_total_energy_footprints_sum_over_period").items()},
            "fabrication": {k: observe.vrepr(v) for k, v in getattr(system, f"{prefix}_total_fabrication_footprints_sum_over_period").items()}}


def totals_equal(a, b):
    for cat in ("energy", "fabrication"):
        if set(a[cat]) != set(b[cat]):
            return False
        for k in a[cat]:
            if not observe.close(a[cat][k], b[cat][k], rtol=1e-12):
                return False
    return True


def f3_networks(spec_before, spec_after):
    """networks of patterns whose job list was empty before an edit and is not after it (known finding F3)"""
    O = spec_after["objects"]
    nets = set()
    for up in [n for n, o in O.items() if o["cls"] == "UsagePattern" and n in spec_before["objects"]]:
        try:
            if not gen.jobs_of_up(spec_before, up) and gen.jobs_of_up(spec_after, up):
                nets.add(O[up]["params"]["network"][1])
        except KeyError:
            pass
    return nets


def f3_mechanism(spec_before, spec_after, stale):
    """F3: a pattern whose job list was empty gets jobs: its network is not in the (pre-change) recomputation chain"""
    O = spec_after["objects"]
    ups = [n for n, o in O.items() if o["cls"] == "UsagePattern" and n in spec_before["objects"]]
    nets = set()
    for up in ups:
        try:
            if not gen.jobs_of_up(spec_before, up) and gen.jobs_of_up(spec_after, up):
                nets.add(O[up]["params"]["network"][1])
        except KeyError:
            pass
    allowed = {(n, "energy_footprint") for n in nets} | {("system", "total_footprint")}
    if nets and set(stale) <= allowed:
        return "F3-network-of-jobless-pattern-not-recomputed"
    return None


def directed_spec(rnd):
    """base model + an empty step in a journey whose pattern has other jobs, and jobs that live on another network / nowhere:
    the history starts by giving the empty step its first job"""
    spec = gen.base_spec()
    O = spec["objects"]
    from ..spec import obj, q
    O["se"] = obj("UsageJourneyStep", user_time_spent=q(rnd.choice([2, 65]), "min"), jobs=["refs", []])
    O["jfree"] = obj("Job", server=["ref", "srv2"], data_transferred=q(713, "kB"))
    pos = rnd.choice([0, 1, 2])
    O["uj1"]["params"]["uj_steps"][1].insert(pos, "se")          # uj1 belongs to up1 (network n1); j3 / jfree are not on n1 ... j3 is: use jfree or j-from-up2
    first = rnd.choice([
        {"op": "list", "obj": "se", "attr": "jobs", "method": "append", "args": ["jfree"], "kind": "fill_empty_step"},
        {"op": "list", "obj": "se", "attr": "jobs", "method": "iadd", "args": [["jfree"]], "kind": "fill_empty_step"},
        {"op": "set", "obj": "se", "attr": "jobs", "value": ["refs", ["jfree", "jfree"]], "kind": "fill_empty_step"},
        {"op": "group", "kind": "fill_empty_step", "changes": [{"obj": "se", "attr": "jobs", "value": ["refs", ["jfree"]]},
                                                               {"obj": "d1", "attr": "power", "value": ["q", 37, "W"]}]}])
    return spec, first


def run_case(case):
    rnd = case_rng(case["seed"], case["idx"], "C01")
    spec0 = None
    forced = []
    if case["idx"] % 20 == 7:
        spec0, e0 = directed_spec(rnd); forced = [e0]
    if case["idx"] % 6 == 3 and not forced:
        # an input that is added to a series, edited twice in a row (must not be added twice)
        forced = ["storage_base", "storage_base"]
    if case["idx"] % 8 == 5:
        # a model with every builder class (services, GPU and cloud servers): the same oracle, edits also on builder inputs
        from .c17 import builder_spec
        spec0 = builder_spec(rnd)
    h = Hist(rnd, case["tier"], spec=spec0)
    C = {"rebuild_comparisons": 0, "slots_compared": 0, "undo_checks": 0, "previous_total_checks": 0, "initial_total_checks": 0,
         "boundary_skipped": 0, "ref_refused": 0, "live_refused": 0, "build_failed": 0, "edits_applied": 0, "edits_changing_values": 0}
    classes = set(gen.topo_classes(h.spec)) | ({"builder_model"} if (spec0 is not None and "web" in spec0["objects"]) else set())
    V = []
    if h.build_error:
        C["build_failed"] = 1
        return {"counters": C, "classes": sorted(classes), "violations": [], "nontrivial": False}
    sysm = h.system
    # creation totals
    C["initial_total_checks"] += 1
    init_tot = totals(sysm)
    if not totals_equal(init_tot, totals_attr(sysm, "initial")):
        V.append({"kind": "initial_totals", "detail": "initial_total_* differ from the totals read right after creation"})
    kinds = []
    last = None      # (edit, spec_before, snapshot_before) for undo
    for k in range(case["n_edits"]):
        if V:
            break
        undo = last is not None and rnd.random() < 0.22
        if undo:
            e = edits.inverse(last[0], last[1]); e["kind"] = "undo"
        else:
            if forced:
                e = forced.pop(0)
                if isinstance(e, str):
                    e = edits.KINDS[e](rnd, h.spec) or h.propose(case.get("mix"))
                    e.setdefault("kind", "storage_base")
            elif spec0 is not None and "web" in h.spec["objects"] and rnd.random() < 0.4:
                from .c17 import builder_edit
                e = builder_edit(rnd, h.spec) or h.propose(case.get("mix"))
                e.setdefault("kind", "builder_input")
            else:
                e = h.propose(case.get("mix"))
        spec_before = h.spec
        spec_after = h.spec_after(e)
        ref = None
        if not undo:
            ref, err = h.reference(spec_after)
            if ref is None:
                C["ref_refused"] += 1
                h.log.append({"edit": edits.describe(e), "result": "not applied: a fresh build of these inputs raises " + err[:80]})
                continue
        tot_before = totals(sysm)
        snap_before = observe.snapshot(sysm)
        exc = h.apply(e, spec_after)
        if exc is not None:
            C["live_refused"] += 1
            break
        C["edits_applied"] += 1
        kinds.append(e["kind"]); classes.add("edit_" + e["kind"])
        if e["op"] == "list":
            classes.add("mut_" + e["method"])
        snap_live = observe.snapshot(sysm)
        changed = bool(observe.diff(snap_before, snap_live, rtol=1e-12))
        touched = [c["obj"] for c in e["changes"]] if e["op"] == "group" else ([] if e["op"] == "simulate" else [e["obj"]])
        from ..spec import reachable
        in_system = any(t in reachable(spec_before) for t in touched)      # an edit on an object outside the system is not "an edit of the system"
        C["edits_changing_values"] += int(changed)
        if undo:
            C["undo_checks"] += 1
            d = observe.diff(snap_live, last[2])
            if d:
                V.append({"kind": "undo_does_not_restore", "edit": edits.describe(e), "slots": observe.explain_diff(snap_live, last[2], d),
                          "n_slots": len(d), "history": h.log[-10:], "mechanism": f3_mechanism(spec_before, spec_after, d)})
            last = None
        else:
            ref_sys = ref[spec_after["system"]]
            if observe.ceil_boundary_ambiguous(ref_sys) or observe.ceil_boundary_ambiguous(sysm):
                C["boundary_skipped"] += 1
            else:
                snap_ref = observe.snapshot(ref_sys)
                C["rebuild_comparisons"] += 1; C["slots_compared"] += len(snap_ref)
                d = observe.diff(snap_live, snap_ref)
                if d:
                    V.append({"kind": "stale_after_edit", "edit": edits.describe(e), "n_slots": len(d),
                              "slots": observe.explain_diff(snap_live, snap_ref, d), "history": h.log[-10:],
                              "mechanism": f3_mechanism(spec_before, spec_after, d)})
            last = (e, spec_before, snap_before) if edits.inverse(e, spec_before) is not None else None
        if changed and in_system and sysm.previous_change is not None:
            C["previous_total_checks"] += 1
            if not totals_equal(tot_before, totals_attr(sysm, "previous")):
                V.append({"kind": "previous_totals", "edit": edits.describe(e),
                          "detail": "previous_total_* differ from the totals read just before the edit", "history": h.log[-10:]})
        C["initial_total_checks"] += 1
        if not totals_equal(init_tot, totals_attr(sysm, "initial")):
            V.append({"kind": "initial_totals", "edit": edits.describe(e), "detail": "initial_total_* changed after an edit"})
    nontrivial = C["edits_changing_values"] > 0
    dg = observe.digest(observe.snapshot(sysm)) + "|" + ",".join(kinds)
    return {"counters": C, "classes": sorted(classes), "violations": V, "nontrivial": nontrivial, "digest": dg,
            "sample": h.summary() if case["idx"] < 3 else None}


def witness(fid):
    """directed witness for the open known finding F3"""
    if fid != "F3":
        return None
    from ..spec import build
    spec = gen.base_spec()
    O = spec["objects"]
    O["s4"] = {"cls": "UsageJourneyStep", "params": {"user_time_spent": ["q", 5, "min"], "jobs": ["refs", []]}}
    O["uj2"]["params"]["uj_steps"] = ["refs", ["s4"]]          # up2 has no job
    env.seed_ids(1)
    objs = build(spec)
    e = {"op": "set", "obj": "uj2", "attr": "uj_steps", "value": ["refs", ["s4", "s3", "s1"]]}
    s2 = copy.deepcopy(spec); edits.apply_spec(e, s2)
    edits.apply_live(e, objs)
    ref = build(prune(s2))
    d = observe.diff(observe.snapshot(objs["system"]), observe.snapshot(ref["system"]))
    return bool(d) and f3_mechanism(spec, s2, d) is not None
