"""C17 — service and cloud-server builders are faithful shorthand (differential against a plain twin + rule recomputation)."""
import copy, math, hashlib, random, re
from .. import env, gen, edits, observe
from .. import spec as SP
from ..history import Hist, case_rng
from ..spec import build, obj, q, prune, names_of
from ..series import base

ID = "C17"
LEVEL = "exploration"
RULE = ("case = a model containing the builder classes (web application + job, video streaming + job, generative AI model + job on a GPU "
        "server, cloud-instance server), one categorical choice being the case's subject (resolution / technology x use case / provider x "
        "model / provider x instance type), numeric builder parameters drawn at random, builder jobs mixed with plain jobs on the same "
        "server. Monitors: (1) every footprint slot equals that of the plain twin (plain Server/Job carrying the derived parameters, "
        "services folded into the server's base consumption); (2) each derived parameter equals the builder's stated rule recomputed by "
        "the monitor from the packaged data; (3) after editing builder inputs (incl. provider+model / provider+instance in one grouped "
        "update) the live model equals a rebuilt builder model and its twin. quick: all 7 resolutions, all 30 technology x use-case "
        "pairs, a stratified sample of models and instance types; thorough: exhaustive over all four categorical spaces. "
        "distinct = the categorical choice + numeric digest; non-trivial = twin comparison done on >= 1 non-zero footprint")
BUDGET = {"quick": 280, "thorough": 2400}
PER_CASE_TIMEOUT = {"quick": 150, "thorough": 300}
RESOLUTIONS = ["480p (640 x 480)", "720p (1280 x 720)", "1080p (1920 x 1080)", "1440p (2560 x 1440)", "2K (2048 x 1080)", "4K (3840 x 2160)", "8K (7680 x 4320)"]


class _Lazy:
    pass


def _data():
    E = env.load()
    if hasattr(_Lazy, "d"):
        return _Lazy.d
    from efootprint.builders.services import generative_ai_ecologits as g, web_application as w
    from efootprint.builders.hardware import boavizta_cloud_server as b
    d = {"models": [(m.provider.name, m.name) for m in g.models.list_models()], "g": g, "w": w, "b": b,
         "techs": w.get_ecobenchmark_technologies(), "cases": w.get_implementation_details(),
         # only the (technology, use case) pairs that the packaged Ecobenchmark table contains can be computed
         "web_pairs": sorted(set(zip(w.ECOBENCHMARK_DF["service"], w.ECOBENCHMARK_DF["use_case"]))),
         "instances": [(p.value, it.value) for p, its in b.instance_types_conditional_list_values_dict["conditional_list_values"].items() for it in its]}
    _Lazy.d = d
    return d


def register_gpu_job():
    E = env.load()
    if "GpuJob" in SP.EXTRA_CLASSES:
        return
    Job = E.Job

    class GpuJob(Job):
        """plain Job whose default compute is expressed in gpu (a plain Job cannot target a GPUServer otherwise)"""
        @classmethod
        def default_values(cls):
            d = Job.default_values()
            d["compute_needed"] = E.SourceValue(1 * E.u.gpu)
            return d

        def __init__(self, name: str, server: E.ServerBase, data_transferred: E.ExplainableQuantity, data_stored: E.ExplainableQuantity,
                     request_duration: E.ExplainableQuantity, compute_needed: E.ExplainableQuantity, ram_needed: E.ExplainableQuantity):
            super().__init__(name, server, data_transferred, data_stored, request_duration, compute_needed, ram_needed)
    SP.EXTRA_CLASSES["GpuJob"] = GpuJob


def cases(tier, seed):
    D = _data()
    rnd = random.Random(f"C17-{seed}")
    cs = []
    for r in RESOLUTIONS:
        cs.append({"kind": "video", "choice": r})
    for t, c in D["web_pairs"]:
        cs.append({"kind": "web", "choice": [t, c]})
    models = D["models"] if tier == "thorough" else stratified(rnd, D["models"], 14)
    for m in models:
        cs.append({"kind": "genai", "choice": list(m)})
    inst = D["instances"] if tier == "thorough" else stratified(rnd, D["instances"], 24)
    for i in inst:
        cs.append({"kind": "cloud", "choice": list(i)})
    for k in range(10 if tier == "quick" else 60):
        cs.append({"kind": "mixed_history", "choice": None})
    return [dict(c, seed=seed, idx=i, tier=tier) for i, c in enumerate(cs)]


def stratified(rnd, pairs, n):
    by = {}
    for p in pairs:
        by.setdefault(p[0], []).append(p)
    out = []
    keys = sorted(by)
    while len(out) < n:
        for k in keys:
            if by[k] and len(out) < n:
                out.append(by[k].pop(rnd.randrange(len(by[k]))))
        if not any(by.values()):
            break
    return out


def requirements(tier):
    if tier == "quick":
        return {"min_counters": {"twin_comparisons": 100, "rule_checks": 400, "builder_input_edits": 60, "rebuild_comparisons_after_edit": 60,
                                 "video_cases": 7, "web_cases": 20, "genai_cases": 12, "cloud_cases": 20},
                "required_classes": ["video", "web", "genai", "cloud", "grouped_provider_model", "grouped_provider_instance", "mixed_with_plain_jobs"]}
    return {"min_counters": {"twin_comparisons": 2000, "rule_checks": 8000, "video_cases": 7, "web_cases": 20, "genai_cases": 295, "cloud_cases": 1919},
            "required_classes": ["video", "web", "genai", "cloud"]}


def model_params(provider, name):
    """(active, total) parameters in billions from the EcoLogits repository, by the builder's stated rule"""
    D = _data()
    from ecologits.utils.range_value import RangeValue
    m = D["g"].models.find_model(provider=provider, model_name=name)
    p = m.architecture.parameters

    def num(x):
        return (x.min + x.max) / 2 if isinstance(x, RangeValue) else x
    if isinstance(p, (int, float)):
        return p, p
    if isinstance(p, RangeValue):
        return num(p), num(p)
    return num(p.active), num(p.total)


def builder_spec(rnd, choice=None, kind=None):
    """a model with all builder classes; `choice` overrides the categorical input of `kind`"""
    D = _data()
    res = choice if kind == "video" else rnd.choice(RESOLUTIONS)
    tech, ucase = choice if kind == "web" else rnd.choice(D["web_pairs"])
    prov, model = choice if kind == "genai" else rnd.choice([("mistralai", "open-mistral-7b"), ("openai", "gpt-4o-mini"), ("mistralai", "open-mixtral-8x7b")])
    cprov, inst = choice if kind == "cloud" else rnd.choice([("scaleway", "ent1-s"), ("aws", "m5.xlarge"), ("scaleway", "dev1-s")])
    act, tot = model_params(prov, model)
    need_gb = 1.2 * tot * 1e9 * 16 / 8e9
    gpus = max(4, math.ceil(need_gb / 80 * 1.15) + 1)
    O = {}
    for n in ("st0", "st1", "st2"):
        O[n] = obj("Storage", data_storage_duration=q(*rnd.choice([(5, "year"), (30, "hour")])), storage_capacity=q(1.13, "TB"))
    O["srv0"] = obj("Server", storage=["ref", "st0"], server_type=["s", rnd.choice(["autoscaling", "on-premise", "serverless"])],
                    ram=q(rnd.choice([64, 128]), "GB"), base_ram_consumption=q(rnd.choice([0, 0.3]), "GB"), base_compute_consumption=q(rnd.choice([0, 1]), "cpu_core"))
    O["gsrv"] = obj("GPUServer", storage=["ref", "st1"], compute=q(gpus, "gpu"), server_type=["s", rnd.choice(["serverless", "autoscaling"])])
    O["csrv"] = obj("BoaviztaCloudServer", storage=["ref", "st2"], provider=["s", cprov], instance_type=["s", inst],
                    server_type=["s", rnd.choice(["autoscaling", "serverless"])], average_carbon_intensity=q(rnd.choice([233, 85]), "g/kWh"))
    O["web"] = obj("WebApplication", server=["ref", "srv0"], technology=["s", tech])
    O["video"] = obj("VideoStreaming", server=["ref", "srv0"], bits_per_pixel=q(rnd.choice([0.1, 0.137]), "dimensionless"),
                     ram_buffer_per_user=q(rnd.choice([50, 37]), "MB"), static_delivery_cpu_cost=q(rnd.choice([4, 1.37]), "cpu_core * s / GB"))
    O["genai"] = obj("GenAIModel", server=["ref", "gsrv"], provider=["s", prov], model_name=["s", model])
    O["jweb"] = obj("WebApplicationJob", service=["ref", "web"], implementation_details=["s", ucase], data_transferred=q(rnd.choice([2.2, 0.37]), "MB"))
    O["jvid"] = obj("VideoStreamingJob", service=["ref", "video"], resolution=["s", res], video_duration=q(*rnd.choice([(1, "hour"), (20, "min"), (90, "min")])),
                    refresh_rate=q(rnd.choice([30, 24, 60]), "1/s"))
    O["jgen"] = obj("GenAIJob", service=["ref", "genai"], output_token_count=q(rnd.choice([1000, 137]), "dimensionless"))
    O["jplain"] = obj("Job", server=["ref", "srv0"], request_duration=q(90, "s"))
    O["jcloud"] = obj("Job", server=["ref", "csrv"], compute_needed=q(0.1, "cpu_core"), ram_needed=q(50, "MB"))
    O["s0"] = obj("UsageJourneyStep", user_time_spent=q(20, "min"), jobs=["refs", ["jweb", "jplain"]])
    O["s1"] = obj("UsageJourneyStep", user_time_spent=q(70, "min"), jobs=["refs", ["jvid", "jcloud"]])
    O["s2"] = obj("UsageJourneyStep", user_time_spent=q(1, "min"), jobs=["refs", ["jgen", "jweb"]])
    O["uj0"] = obj("UsageJourney", uj_steps=["refs", ["s0", "s1"]])
    O["uj1"] = obj("UsageJourney", uj_steps=["refs", ["s2", "s0"]])
    O["n0"] = obj("Network"); O["d0"] = obj("Device")
    O["c0"] = obj("Country", short_name=["str", "C0"], timezone=["tz", rnd.choice(["Europe/Paris", "UTC", "Asia/Kolkata"])])
    O["up0"] = obj("UsagePattern", usage_journey=["ref", "uj0"], network=["ref", "n0"], country=["ref", "c0"], devices=["refs", ["d0"]],
                   hourly_usage_journey_starts=["h", [rnd.choice([3, 10, 41.5, 0]) for _ in range(12)], "2025-01-01T00:00:00", "dimensionless"])
    O["up1"] = obj("UsagePattern", usage_journey=["ref", "uj1"], network=["ref", "n0"], country=["ref", "c0"], devices=["refs", ["d0"]],
                   hourly_usage_journey_starts=["h", [rnd.choice([1, 2, 7.5]) for _ in range(9)], "2025-01-01T05:00:00", "dimensionless"])
    # a second video service with other parameters (a job can be re-pointed to it), a second streaming job with the SAME resolution
    # as the first, and a pattern on its own network whose journey runs service jobs only
    O["video2"] = obj("VideoStreaming", server=["ref", "srv0"], bits_per_pixel=q(0.2, "dimensionless"), ram_buffer_per_user=q(80, "MB"),
                      static_delivery_cpu_cost=q(2.5, "cpu_core * s / GB"), base_ram_consumption=q(1, "GB"))
    O["jvid2"] = obj("VideoStreamingJob", service=["ref", "video2"], resolution=["s", res], video_duration=q(30, "min"), refresh_rate=q(30, "1/s"))
    O["s3"] = obj("UsageJourneyStep", user_time_spent=q(10, "min"), jobs=["refs", ["jvid", "jvid2", "jgen"]])
    O["uj2"] = obj("UsageJourney", uj_steps=["refs", ["s3"]])
    O["n1"] = obj("Network", bandwidth_energy_intensity=q(0.12, "kWh/GB"))
    O["up2"] = obj("UsagePattern", usage_journey=["ref", "uj2"], network=["ref", "n1"], country=["ref", "c0"], devices=["refs", ["d0"]],
                   hourly_usage_journey_starts=["h", [rnd.choice([1, 2, 4.5]) for _ in range(8)], "2025-01-01T02:00:00", "dimensionless"])
    # a third video service that has NO job yet, installed on a server that nothing else uses (outside the system until a job is
    # re-pointed to the service)
    O["st3"] = obj("Storage", storage_capacity=q(1.13, "TB"))
    O["srv1"] = obj("Server", storage=["ref", "st3"], server_type=["s", "autoscaling"], ram=q(128, "GB"))
    O["video3"] = obj("VideoStreaming", server=["ref", "srv1"], bits_per_pixel=q(0.07, "dimensionless"), ram_buffer_per_user=q(20, "MB"),
                      static_delivery_cpu_cost=q(3.7, "cpu_core * s / GB"))
    # ... and a streaming job of that service that no step calls yet (a draft that an edit can put into a step)
    # (on a fourth service and server of its own: video3 must stay without any job until an edit gives it one)
    O["st4"] = obj("Storage", storage_capacity=q(1.13, "TB"))
    O["srv3"] = obj("Server", storage=["ref", "st4"], server_type=["s", "autoscaling"], ram=q(128, "GB"))
    O["video4"] = obj("VideoStreaming", server=["ref", "srv3"], bits_per_pixel=q(0.09, "dimensionless"), ram_buffer_per_user=q(30, "MB"),
                      static_delivery_cpu_cost=q(2.9, "cpu_core * s / GB"))
    O["jvid3"] = obj("VideoStreamingJob", service=["ref", "video4"], resolution=["s", rnd.choice(RESOLUTIONS)], video_duration=q(25, "min"), refresh_rate=q(30, "1/s"))
    if rnd.random() < 0.34:
        # an on-premise cloud-instance server whose number of instances is given at construction
        O["csrv"]["params"]["server_type"] = ["s", "on-premise"]
        O["csrv"]["params"]["fixed_nb_of_instances"] = q(rnd.choice([2000, 5000]), "dimensionless")
    O["system"] = {"cls": "System", "params": {"usage_patterns": ["refs", ["up0", "up1", "up2"]]}}
    return {"objects": O, "system": "system"}


def vs_of(v):
    return ["q", float(v.value.magnitude), str(v.value.units)]


def twin_spec(spec, objs):
    """plain model carrying the parameters the builders derived"""
    E = env.load()
    register_gpu_job()
    T = copy.deepcopy(spec)
    O = T["objects"]
    for n, o in list(O.items()):
        live = objs.get(n)
        if o["cls"] == "BoaviztaCloudServer":
            p = {k: v for k, v in o["params"].items() if k not in ("provider", "instance_type")}
            for a in ("carbon_footprint_fabrication", "power", "ram", "compute"):
                p[a] = vs_of(getattr(live, a))
            O[n] = {"cls": "Server", "params": p}
        elif o["cls"] in ("WebApplicationJob", "VideoStreamingJob", "GenAIJob"):
            srv = spec["objects"][o["params"]["service"][1]]["params"]["server"][1]
            p = {"server": ["ref", srv]}
            for a in ("data_transferred", "data_stored", "request_duration", "compute_needed", "ram_needed"):
                p[a] = vs_of(getattr(live, a))
            O[n] = {"cls": "GpuJob" if o["cls"] == "GenAIJob" else "Job", "params": p}
    for n, o in list(O.items()):
        if o["cls"] in SP.SERVICE_CLS:
            del O[n]
    inside = SP.reachable(spec)
    for n, o in O.items():
        if o["cls"] in ("Server", "GPUServer") and n in inside:
            live = objs[n]
            o["params"]["base_ram_consumption"] = vs_of(live.occupied_ram_per_instance)
            o["params"]["base_compute_consumption"] = vs_of(live.occupied_compute_per_instance)
    return T


TWIN_ATTRS = {"Server": ["hour_by_hour_ram_need", "hour_by_hour_compute_need", "available_ram_per_instance", "available_compute_per_instance",
                         "raw_nb_of_instances", "nb_of_instances", "instances_fabrication_footprint", "instances_energy", "energy_footprint"],
              "Storage": ["storage_delta", "full_cumulative_storage_need", "raw_nb_of_instances", "nb_of_instances", "nb_of_active_instances",
                          "instances_fabrication_footprint", "instances_energy", "energy_footprint"],
              "Network": ["energy_footprint"], "UsagePattern": ["energy_footprint", "instances_fabrication_footprint", "devices_energy", "nb_usage_journeys_in_parallel"],
              "System": ["total_footprint"],
              "Job": ["hourly_occurrences_across_usage_patterns", "hourly_avg_occurrences_across_usage_patterns",
                      "hourly_data_transferred_across_usage_patterns", "hourly_data_stored_across_usage_patterns"]}


def compare_with_twin(spec, objs, V, C, ctx):
    E = env.load()
    T = twin_spec(spec, objs)
    saved = env.UUID.rng.getstate()
    try:
        tw = build(prune(T))
    except Exception as e:
        V.append({"kind": f"plain twin cannot be built: {type(e).__name__}: {str(e)[:200]}", **ctx}); return False
    finally:
        env.UUID.rng.setstate(saved)
    if observe.ceil_boundary_ambiguous(objs[spec["system"]]) or observe.ceil_boundary_ambiguous(tw[spec["system"]]):
        C["boundary_skipped"] += 1
        return False
    C["twin_comparisons"] += 1
    nonzero = False
    for n, o in spec["objects"].items():
        if n not in tw:
            continue
        cls = "Server" if o["cls"] in SP.SERVER_CLS else ("Job" if o["cls"] in SP.JOB_CLS else o["cls"])
        for a in TWIN_ATTRS.get(cls, []):
            ra, rb = observe.vrepr(getattr(objs[n], a)), observe.vrepr(getattr(tw[n], a))
            C["twin_slots_compared"] += 1
            if not observe._is_zero(ra):
                nonzero = True
            if not observe.close(ra, rb, rtol=1e-9, atol=observe.slot_atol((n, a))):
                V.append({"kind": "builder model differs from its plain twin", "slot": [n, a], "builder": observe.describe(ra), "twin": observe.describe(rb), **ctx})
                if len(V) > 3:
                    return nonzero
    return nonzero


def rel_ok(a, b, rt=1e-9):
    return abs(a - b) <= rt * max(abs(a), abs(b), 1e-300)


def check_rules(spec, objs, V, C, ctx):
    """derived parameters follow the builder's stated rule (recomputed by the monitor in base units)"""
    E = env.load()
    D = _data()
    O = spec["objects"]
    bq = lambda v: 0.0 if isinstance(v, E.EmptyExplainableObject) else float(v.value.to_base_units().magnitude)
    inside = SP.reachable(spec)
    for n, o in O.items():
        if n not in inside:
            continue          # objects outside the system are not computed
        P = o["params"]
        live = objs[n]
        bad = []
        if o["cls"] == "VideoStreamingJob":
            svc = O[P["service"][1]]["params"]
            w, hgt = map(int, re.search(r"\((\d+)\s*x\s*(\d+)\)", P["resolution"][1]).groups())
            bitrate = w * hgt * base(svc["bits_per_pixel"]) * base(P["refresh_rate"])         # bit / s
            dur = base(P["video_duration"])
            exp = {"dynamic_bitrate": bitrate, "request_duration": dur, "data_transferred": bitrate * dur,
                   "compute_needed": base(svc["static_delivery_cpu_cost"]) * bitrate, "ram_needed": base(svc["ram_buffer_per_user"])}
            for a, x in exp.items():
                C["rule_checks"] += 1
                if not rel_ok(bq(getattr(live, a)), x):
                    bad.append((a, bq(getattr(live, a)), x))
        elif o["cls"] == "WebApplicationJob":
            df = D["w"].ECOBENCHMARK_DF
            tech = O[P["service"][1]]["params"]["technology"][1]
            row = df[(df["service"] == tech) & (df["use_case"] == P["implementation_details"][1])].iloc[0]
            from efootprint.builders.services.ecobenchmark_analysis.ecobenchmark_data_analysis import default_request_duration
            exp = {"compute_needed": float(row["avg_cpu_core_per_request"]), "ram_needed": float(row["avg_ram_per_request_in_MB"]) * 8e6,
                   "request_duration": bq(default_request_duration())}
            for a, x in exp.items():
                C["rule_checks"] += 1
                if not rel_ok(bq(getattr(live, a)), x):
                    bad.append((a, bq(getattr(live, a)), x))
        elif o["cls"] == "GenAIJob":
            svc = O[P["service"][1]]["params"]
            act, tot = model_params(svc["provider"][1], svc["model_name"][1])
            tokens = base(P["output_token_count"])
            weights = tokens * base(svc["bits_per_token"])
            gsrv = O[svc["server"][1]]["params"]
            exp = {"output_token_weights": weights, "data_stored": 100e3 * 8 + weights, "data_transferred": 100e3 * 8 + weights,
                   "request_duration": tokens * (base(svc["gpu_latency_alpha"]) * act * 1e9 + base(svc["gpu_latency_beta"])), "ram_needed": 0.0,
                   "compute_needed": base(svc["llm_memory_factor"]) * act * 1e9 * base(svc["nb_of_bits_per_parameter"]) / base(gsrv["ram_per_gpu"])}
            for a, x in exp.items():
                C["rule_checks"] += 1
                if not rel_ok(bq(getattr(live, a)), x):
                    bad.append((a, bq(getattr(live, a)), x))
        elif o["cls"] == "GenAIModel":
            act, tot = model_params(P["provider"][1], P["model_name"][1])
            exp = {"active_params": act * 1e9, "total_params": tot * 1e9,
                   "base_ram_consumption": base(P["llm_memory_factor"]) * tot * 1e9 * base(P["nb_of_bits_per_parameter"])}
            for a, x in exp.items():
                C["rule_checks"] += 1
                if not rel_ok(bq(getattr(live, a)), x):
                    bad.append((a, bq(getattr(live, a)), x))
        elif o["cls"] == "BoaviztaCloudServer":
            from efootprint.builders.hardware.boaviztapi_utils import call_boaviztapi
            r = call_boaviztapi(url="https://api.boavizta.org/v1/cloud/instance", params={"provider": P["provider"][1], "instance_type": P["instance_type"][1]})
            exp = {"carbon_footprint_fabrication": float(r["impacts"]["gwp"]["embedded"]["value"]), "power": float(r["verbose"]["avg_power"]["value"]),
                   "ram": float(r["verbose"]["memory"]["value"]) * 8e9, "compute": float(r["verbose"]["vcpu"]["value"])}
            for a, x in exp.items():
                C["rule_checks"] += 1
                if not rel_ok(bq(getattr(live, a)), x, 1e-9):
                    bad.append((a, bq(getattr(live, a)), x))
        elif o["cls"] in ("Server", "GPUServer") and n in objs:
            svcs = [s for s, so in O.items() if so["cls"] in SP.SERVICE_CLS and so["params"]["server"][1] == n]
            C["rule_checks"] += 1
            x = base(P["base_ram_consumption"]) + sum(bq(objs[s].base_ram_consumption) for s in svcs)
            if not rel_ok(bq(live.occupied_ram_per_instance), x):
                bad.append(("occupied_ram_per_instance", bq(live.occupied_ram_per_instance), x))
        for a, got, x in bad:
            V.append({"kind": "derived parameter does not follow the builder's rule", "object": n, "class": o["cls"], "attribute": a,
                      "published_base_units": got, "rule_base_units": x, **ctx})


def builder_edit(rnd, spec):
    D = _data()
    O = spec["objects"]
    k = rnd.choice(["resolution", "refresh", "duration", "bpp", "technology", "use_case", "tokens", "model", "instance", "bits_per_param", "cpu_cost",
                    "model", "instance", "technology", "job_service", "resolution2", "job_service", "attach_draft", "attach_draft"])
    S = lambda o, a, v: {"op": "set", "obj": o, "attr": a, "value": v, "kind": "builder_" + k}
    if k in ("job_service", "attach_draft") and "video3" in O and rnd.random() < 0.5 and not any(
            o["cls"] == "VideoStreamingJob" and o["params"]["service"][1] == "video3" and n != "jvid3" for n, o in O.items()) \
            and not any("jvid3" in o["params"]["jobs"][1] for o in O.values() if o["cls"] == "UsageJourneyStep"):
        # a job re-pointed to the service that has no job yet and sits on a server outside the system
        return S(rnd.choice(["jvid", "jvid2"]), "service", ["ref", "video3"])
    if k == "attach_draft" and "jvid3" in O:
        # a service job that no step calls yet is put into a step whose other jobs run on other servers
        steps = [st for st in ("s0", "s2") if st in O and "jvid3" not in O[st]["params"]["jobs"][1]]
        if steps:
            m = rnd.choice(["append", "iadd"])
            return {"op": "list", "obj": rnd.choice(steps), "attr": "jobs", "method": m, "args": ["jvid3"] if m == "append" else [["jvid3"]],
                    "kind": "builder_attach_draft"}
    if k == "resolution": return S("jvid", "resolution", ["s", rnd.choice(RESOLUTIONS)])
    if k == "resolution2" and "jvid2" in O: return S("jvid2", "resolution", ["s", rnd.choice(RESOLUTIONS)])
    if k == "job_service" and "video2" in O:
        j = rnd.choice(["jvid", "jvid2"])
        cur = O[j]["params"]["service"][1]
        return S(j, "service", ["ref", rnd.choice([v for v in ("video", "video2", "video3") if v != cur and v in O])])
    if k == "refresh": return S("jvid", "refresh_rate", ["q", rnd.choice([24, 30, 50, 60]), "1/s"])
    if k == "duration": return S("jvid", "video_duration", ["q", rnd.choice([10, 45, 61, 137]), "min"])
    if k == "bpp": return S("video", "bits_per_pixel", ["q", rnd.choice([0.05, 0.1, 0.2]), "dimensionless"])
    if k == "cpu_cost": return S("video", "static_delivery_cpu_cost", ["q", rnd.choice([2, 4, 0.5]), "cpu_core * s / GB"])
    if k == "technology":
        uc = O["jweb"]["params"]["implementation_details"][1]
        return S("web", "technology", ["s", rnd.choice([t for t, c in D["web_pairs"] if c == uc])])
    if k == "use_case":
        te = O["web"]["params"]["technology"][1]
        return S("jweb", "implementation_details", ["s", rnd.choice([c for t, c in D["web_pairs"] if t == te])])
    if k == "tokens": return S("jgen", "output_token_count", ["q", rnd.choice([100, 500, 2000]), "dimensionless"])
    if k == "bits_per_param": return S("genai", "nb_of_bits_per_parameter", ["q", rnd.choice([8, 16]), "dimensionless"])
    if k == "model":
        cur = O["genai"]["params"]["provider"][1]
        small = [m for m in D["models"] if model_params(*m)[1] <= 80]
        p, m = rnd.choice(small)
        if p == cur and rnd.random() < 0.5:
            return S("genai", "model_name", ["s", m])
        return {"op": "group", "changes": [{"obj": "genai", "attr": "provider", "value": ["s", p]}, {"obj": "genai", "attr": "model_name", "value": ["s", m]}],
                "kind": "grouped_provider_model"}
    if k == "instance":
        p, i = rnd.choice(D["instances"])
        if p == O["csrv"]["params"]["provider"][1]:
            return S("csrv", "instance_type", ["s", i])
        return {"op": "group", "changes": [{"obj": "csrv", "attr": "provider", "value": ["s", p]}, {"obj": "csrv", "attr": "instance_type", "value": ["s", i]}],
                "kind": "grouped_provider_instance"}


def run_case(case):
    E = env.load()
    register_gpu_job()
    rnd = case_rng(case["seed"], case["idx"], "C17")
    kind = case["kind"]
    choice = tuple(case["choice"]) if isinstance(case["choice"], list) else case["choice"]
    spec = builder_spec(rnd, choice, kind)
    C = {k: 0 for k in ("twin_comparisons", "twin_slots_compared", "rule_checks", "builder_input_edits", "rebuild_comparisons_after_edit",
                        "boundary_skipped", "video_cases", "web_cases", "genai_cases", "cloud_cases", "build_refused", "edit_refused")}
    classes = {kind, "mixed_with_plain_jobs"} if kind != "mixed_history" else {"mixed_history", "mixed_with_plain_jobs"}
    if kind + "_cases" in C:
        C[kind + "_cases"] = 1
    ctx = {"case": {"kind": kind, "choice": case["choice"]}}
    h = Hist(rnd, case["tier"], spec=spec)
    V = []
    if h.build_error:
        # a builder model that cannot be computed (e.g. instance too small for the services' base consumption) is not a violation
        C["build_refused"] = 1
        api_fails = False
        if kind == "cloud":
            # some instance types make the packaged Boavizta API itself fail (third-party, trusted base): not computable at all
            try:
                from efootprint.builders.hardware.boaviztapi_utils import call_boaviztapi
                call_boaviztapi(url="https://api.boavizta.org/v1/cloud/instance", params={"provider": choice[0], "instance_type": choice[1]})
            except Exception:
                api_fails = True
                C["packaged_api_fails_for_instance_type"] = 1
        if not api_fails and "has available capacity of" not in h.build_error and "server has available capacity" not in h.build_error:
            V.append({"kind": "builder model could not be built", "error": h.build_error, **ctx})
        return {"counters": C, "classes": sorted(classes), "violations": V, "nontrivial": False, "digest": hashlib.md5(repr(case["choice"]).encode()).hexdigest()[:16]}
    check_rules(h.spec, h.objs, V, C, ctx)
    nt = compare_with_twin(h.spec, h.objs, V, C, ctx)
    n_edits = 0 if (case["tier"] == "thorough" and kind in ("genai", "cloud") and case["idx"] % 10) else (6 if kind == "mixed_history" else 2)
    for _ in range(n_edits):
        if V:
            break
        e = builder_edit(rnd, h.spec) if (kind != "mixed_history" or rnd.random() < 0.6) else h.propose(["num", "link", "list_mut", "starts"])
        if e is None:
            continue
        spec_before_ = h.spec
        spec_after = h.spec_after(e)
        ref, err = h.reference(spec_after)
        if ref is None:
            C["edit_refused"] += 1
            continue
        if h.apply(e, spec_after) is not None:
            C["edit_refused"] += 1
            break
        C["builder_input_edits"] += 1
        classes.add(e["kind"])
        ectx = dict(ctx, after_edit=edits.describe(e))
        if not (observe.ceil_boundary_ambiguous(h.system) or observe.ceil_boundary_ambiguous(ref[h.spec["system"]])):
            C["rebuild_comparisons_after_edit"] += 1
            s1, s2 = observe.snapshot(h.system), observe.snapshot(ref[h.spec["system"]])
            d = observe.diff(s1, s2)
            if d:
                from .c01 import f3_mechanism
                V.append({"kind": "derived parameters not refreshed after a builder input changed (live != rebuilt)", "n_slots": len(d),
                          "slots": observe.explain_diff(s1, s2, d), "mechanism": f3_mechanism(spec_before_, spec_after, d), **ectx})
                break
        check_rules(h.spec, h.objs, V, C, ectx)
        nt = compare_with_twin(h.spec, h.objs, V, C, ectx) or nt
    dg = hashlib.md5(repr((kind, case["choice"], observe.digest(observe.snapshot(h.system)))).encode()).hexdigest()[:16]
    return {"counters": C, "classes": sorted(classes), "violations": V[:4], "nontrivial": nt, "digest": dg,
            "sample": dict(ctx, history=h.log[-3:], counters=C) if case["idx"] % 23 == 0 else None}


def extra_evidence(recs, cases_):
    D = _data()
    return {"categorical_spaces": {"resolutions": len(RESOLUTIONS), "technology_x_use_case_in_packaged_table": len(D["web_pairs"]),
                                   "provider_x_model": len(D["models"]), "provider_x_instance_type": len(D["instances"])}}


def categorical_alternatives(rnd, spec, n, p):
    """valid other values of a builder's categorical input (same provider for models / instance types)"""
    D = _data()
    O = spec["objects"]
    o = O[n]
    cur = o["params"][p][1]
    if o["cls"] == "VideoStreamingJob" and p == "resolution":
        return [r for r in RESOLUTIONS if r != cur][:2]
    if o["cls"] == "WebApplication" and p == "technology":
        ucs = {O[j]["params"]["implementation_details"][1] for j, jo in O.items() if jo["cls"] == "WebApplicationJob" and jo["params"]["service"][1] == n}
        return [t for t in D["techs"] if t != cur and all((t, uc) in D["web_pairs"] for uc in ucs)][:2]
    if o["cls"] == "WebApplicationJob" and p == "implementation_details":
        te = O[o["params"]["service"][1]]["params"]["technology"][1]
        return [c for t, c in D["web_pairs"] if t == te and c != cur][:2]
    if o["cls"] == "GenAIModel" and p == "model_name":
        prov = o["params"]["provider"][1]
        return [m for pr, m in D["models"] if pr == prov and m != cur and model_params(pr, m)[1] <= 80][:2]
    if o["cls"] == "BoaviztaCloudServer" and p == "instance_type":
        prov = o["params"]["provider"][1]
        c = [i for pr, i in D["instances"] if pr == prov and i != cur]
        return rnd.sample(c, min(2, len(c)))
    return []


def witness(fid):
    from .c01 import witness as w
    return w(fid)
