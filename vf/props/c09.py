"""C09 — explainable quantities obey unit-safe arithmetic (contracts on the real operators + operand generator)."""
import hashlib, random
from datetime import datetime, timedelta, timezone
import numpy as np
from .. import env, contracts, observe, gen
from ..history import case_rng, Hist

ID = "C09"
LEVEL = "exploration"
RULE = ("contracts are installed on the real operators/helpers of ExplainableQuantity, ExplainableHourlyQuantities and EmptyExplainableObject. "
        "case (pairs) = 60 generated operand pairs (scalars in 14 units of 7 dimensions, hourly series with identical / overlapping / disjoint "
        "/ shifted / gapped indexes, naive or UTC-aware, empties) x all operators in both orders + algebraic laws (commutativity, "
        "sum(a+b)=sum(a)+sum(b)) + helpers; case (system) = a generated model built and edited with the contracts active, so every "
        "internal operator call is checked. The reference is plain dict-of-floats arithmetic on base-unit magnitudes. distinct = digest "
        "of the operand descriptions; non-trivial = an hourly operand with >= 2 hours took part")
BUDGET = {"quick": 200, "thorough": 1200}
N_PAIR_CASES = {"quick": 120, "thorough": 3000}
N_SYS_CASES = {"quick": 30, "thorough": 300}
PAIRS = 60
UNITS = [("kB", "MB"), ("GB", "TB"), ("W", "kW"), ("s", "hour"), ("kg", "g"), ("kWh", "Wh"), ("cpu_core", "cpu_core"), ("dimensionless", "percent")]


def cases(tier, seed):
    cs = [{"kind": "pairs", "seed": seed, "idx": i, "tier": tier} for i in range(N_PAIR_CASES[tier])]
    cs += [{"kind": "system", "seed": seed, "idx": len(cs) + i, "tier": tier} for i in range(N_SYS_CASES[tier])]
    return cs


def requirements(tier):
    k = 1 if tier == "quick" else 20
    return {"min_counters": {"op_+": 5000 * k, "op_*": 3000 * k, "op_-": 1000 * k, "op_/": 1000 * k, "hourly_misaligned_checked": 800 * k,
                             "incompatible_dimension_pairs": 300 * k, "empty_neutral_checked": 300 * k, "empty_absorbing_checked": 300 * k,
                             "commutativity_checked": 1000 * k, "sum_law_checked": 300 * k, "op_np_compared_with": 300 * k,
                             "op_shift": 200 * k, "op_ceil": 200 * k, "op_round": 200 * k, "copy_independence_checked": 2000 * k, "internal_calls_in_system_workloads": 2000},
            "required_classes": ["pairs", "system", "tz_aware", "naive", "disjoint_index", "gapped_index", "same_span_different_gaps", "aware_non_utc_start_through_builder"]}


BUILDER_VIOLATIONS = []


def rand_scalar(rnd, E):
    u1, u2 = rnd.choice(UNITS)
    unit = rnd.choice([u1, u2])
    m = rnd.choice([0.0, 1.0, 2.5, 137.0, 1e-3, 3137.5, -4.2, 2e-7, 3.0000001])
    return E.ExplainableQuantity(m * E.u(unit), f"scalar {m} {unit}"), f"Q({m} {unit})"


def rand_hourly(rnd, E, classes, base_start=None, tz=None):
    u1, u2 = rnd.choice(UNITS)
    unit = rnd.choice([u1, u2])
    n = rnd.choice([1, 2, 3, 7, 24, 50])
    start = (base_start or datetime(2025, 1, 1)) + timedelta(hours=rnd.choice([0, 0, 1, 3, 30, 100]))
    vals = [rnd.choice([0.0, 1.0, 2.5, 137.0, 1e-3, 41.5, 2e-7, 1e-9, 3.0000001, 6.9999999]) for _ in range(n)]
    df = E.create_hourly_usage_df_from_list(vals, start, E.u(unit).units)
    if rnd.random() < 0.25 and n >= 3:
        df = df.drop(df.index[rnd.randrange(1, n - 1)]); classes.add("gapped_index")
    aware = tz if tz is not None else (rnd.random() < 0.4)
    if aware and rnd.random() < 0.4 and len(df) == n:
        # the same series requested from the list builder with a time-zone-aware start date that is not in UTC: one value per hour
        # from that very instant
        off = rnd.choice([2, -5, 5.5, 9])
        astart = start.replace(tzinfo=timezone(timedelta(hours=off)))
        classes.add("tz_aware"); classes.add("aware_non_utc_start_through_builder")
        try:
            df = E.create_hourly_usage_df_from_list(vals, astart, E.u(unit).units)
            got = [int(t.timestamp()) for t in df.index]
            exp = [int(astart.timestamp()) + 3600 * i for i in range(n)]
            if got != exp:
                BUILDER_VIOLATIONS.append({"kind": "list builder with a time-zone-aware start: the hours are not the requested instants",
                                           "start": str(astart), "first_hour_built": str(df.index[0]), "n": n})
            df = df.tz_convert("UTC")
        except Exception as e:
            BUILDER_VIOLATIONS.append({"kind": f"list builder with a time-zone-aware start raised {type(e).__name__}: {str(e)[:120]}", "start": str(astart)})
            df = E.create_hourly_usage_df_from_list(vals, start, E.u(unit).units).tz_localize("UTC")
    elif aware:
        df = df.tz_localize("UTC"); classes.add("tz_aware")
    else:
        classes.add("naive")
    return E.ExplainableHourlyQuantities(df, f"hourly {unit}"), f"H({n}h from {start:%m-%d %H}h {unit}{' utc' if aware else ''})", aware


def operand(rnd, E, classes, tz=None):
    k = rnd.random()
    if k < 0.1:
        return E.EmptyExplainableObject(), "Empty", None
    if k < 0.4:
        q, d = rand_scalar(rnd, E)
        return q, d, None
    return rand_hourly(rnd, E, classes, tz=tz)


def attempt(f):
    try:
        return f(), None
    except Exception as e:
        return None, e


def run_pairs(case, rnd, E):
    classes = {"pairs"}
    C = {"commutativity_checked": 0, "sum_law_checked": 0, "pairs": 0, "copy_independence_checked": 0}
    V = []
    descs = []
    nt = False
    for _ in range(PAIRS):
        if rnd.random() < 0.12:
            # two series with the same first and last hour and the same number of rows, each with a hole at a different place
            n = rnd.choice([5, 9, 24]); start = datetime(2025, 10, 25, 22)
            u1, u2 = rnd.choice(UNITS); aware = rnd.random() < 0.5
            pair = []
            holes = rnd.sample(range(1, n), 2)
            for hole, unit in zip(holes, (u1, rnd.choice([u1, u2]))):
                df = E.create_hourly_usage_df_from_list([rnd.choice([1.0, 2.5, 137.0, 41.5]) for _ in range(n + 1)], start, E.u(unit).units)
                df = df.drop(df.index[hole])
                if aware:
                    df = df.tz_localize("UTC")
                pair.append((E.ExplainableHourlyQuantities(df, f"hourly {unit}"), f"H({n}h hole@{hole} {unit}{' utc' if aware else ''})", aware))
            (a, da, ta), (b, db, tb) = pair
            classes.add("same_span_different_gaps"); classes.add("gapped_index"); classes.add("tz_aware" if aware else "naive")
        else:
            a, da, ta = operand(rnd, E, classes)
            # bias towards same tz-kind so that hourly pairs are usually combinable
            b, db, tb = operand(rnd, E, classes, tz=ta if (ta is not None and rnd.random() < 0.8) else None)
        descs.append((da, db)); C["pairs"] += 1
        ha = isinstance(a, E.ExplainableHourlyQuantities); hb = isinstance(b, E.ExplainableHourlyQuantities)
        if (ha and len(a.value) >= 2) or (hb and len(b.value) >= 2):
            nt = True
        if ha and hb:
            ia, ib = set(a.value.index.asi8), set(b.value.index.asi8)
            if not (ia & ib):
                classes.add("disjoint_index")
        r1, e1 = attempt(lambda: a + b); r2, e2 = attempt(lambda: b + a)
        if e1 is None and e2 is None:
            C["commutativity_checked"] += 1
            if not observe.close(observe.vrepr(r1), observe.vrepr(r2), rtol=1e-12):
                V.append({"kind": "a + b != b + a", "a": da, "b": db})
            if ha and hb:
                C["sum_law_checked"] += 1
                lhs, el = attempt(lambda: observe.vrepr(r1.sum())); rhs, er = attempt(lambda: observe.vrepr(a.sum() + b.sum()))
                if el is not None or er is not None:
                    V.append({"kind": "a + b succeeded but sum(a+b) / sum(a)+sum(b) cannot be evaluated", "a": da, "b": db, "error": repr(el or er)[:160]})
                elif not observe.close(lhs, rhs, rtol=1e-9):
                    V.append({"kind": "sum(a+b) != sum(a) + sum(b)", "a": da, "b": db, "lhs": str(lhs), "rhs": str(rhs)})
        elif (e1 is None) != (e2 is None):
            V.append({"kind": "a + b and b + a do not both succeed / both raise", "a": da, "b": db, "e1": repr(e1)[:80], "e2": repr(e2)[:80]})
        r1, e1 = attempt(lambda: a * b); r2, e2 = attempt(lambda: b * a)
        if e1 is None and e2 is None:
            C["commutativity_checked"] += 1
            v1 = observe.vrepr(r1) if isinstance(r1, E.ExplainableObject) else ("num", r1)
            v2 = observe.vrepr(r2) if isinstance(r2, E.ExplainableObject) else ("num", r2)
            if v1[0] != "num" and v2[0] != "num" and not observe.close(v1, v2, rtol=1e-12):
                V.append({"kind": "a * b != b * a", "a": da, "b": db})
        attempt(lambda: a - b); attempt(lambda: b - a); attempt(lambda: a / b); attempt(lambda: b / a)
        for x in (a, b):
            if isinstance(x, E.ExplainableHourlyQuantities):
                attempt(lambda: x.sum()); attempt(lambda: x.max()); attempt(lambda: x.mean()); attempt(lambda: x.abs()); attempt(lambda: x.ceil())
                attempt(lambda: -x); attempt(lambda: x.copy()); attempt(lambda: round(x, rnd.choice([0, 2, 4])))
                attempt(lambda: x.return_shifted_hourly_quantities(E.ExplainableQuantity(rnd.choice([0, 59, 60, 61, 150]) * E.u.min, "shift")))
                u1, u2 = next(p for p in UNITS if str(x.unit) in (str(E.u(p[0]).units), str(E.u(p[1]).units)))
                attempt(lambda: x.to(E.u(rnd.choice([u1, u2])).units))
            elif isinstance(x, E.ExplainableQuantity):
                attempt(lambda: x.ceil()); attempt(lambda: x.copy()); attempt(lambda: round(x, rnd.choice([0, 2, 4])))
        for x in (a, b):
            # copy() gives an independent value: the in-place helpers (round(n), to(unit)) applied to the copy leave the copied
            # operand's physical value alone, and the other way round
            if isinstance(x, E.ExplainableHourlyQuantities) and len(x.value):
                y = E.ExplainableHourlyQuantities(x.value.copy(deep=True), "throwaway twin")
                before = observe.vrepr(y)
                c, e = attempt(lambda: y.copy())
                if e is None:
                    C["copy_independence_checked"] += 1
                    k = rnd.choice([0, 1])
                    attempt(lambda: c.round(k)); attempt(lambda: c.to(E.u(next(p for p in UNITS if str(x.unit) in (str(E.u(p[0]).units), str(E.u(p[1]).units)))[0]).units))
                    if not observe.close(observe.vrepr(y), before, rtol=1e-12):
                        V.append({"kind": "in-place rounding / conversion of a copy changed the copied operand", "operand": da if x is a else db})
                    c2, e = attempt(lambda: y.copy())
                    if e is None:
                        snap = observe.vrepr(c2)
                        attempt(lambda: y.round(0))
                        if not observe.close(observe.vrepr(c2), snap, rtol=1e-12):
                            V.append({"kind": "in-place rounding of the operand after copy() changed the copy", "operand": da if x is a else db})
            elif isinstance(x, E.ExplainableQuantity):
                y = E.ExplainableQuantity(x.value.magnitude * x.value.units, "throwaway twin")
                before = observe.vrepr(y)
                c, e = attempt(lambda: y.copy())
                if e is None:
                    C["copy_independence_checked"] += 1
                    attempt(lambda: c.to(E.u(next(p for p in UNITS if str(x.value.units) in (str(E.u(p[0]).units), str(E.u(p[1]).units)))[0]).units))
                    if not observe.close(observe.vrepr(y), before, rtol=1e-15):
                        V.append({"kind": "in-place conversion of a copy changed the copied operand", "operand": da if x is a else db})
        if ha or isinstance(a, E.EmptyExplainableObject):
            if hb or isinstance(b, E.EmptyExplainableObject):
                cmp_ = rnd.choice(["max", "min"])
                r1, e1 = attempt(lambda: a.np_compared_with(b, cmp_)); r2, e2 = attempt(lambda: b.np_compared_with(a, cmp_))
                if e1 is None and e2 is None and ha and hb and ta == tb:
                    C["commutativity_checked"] += 1
                    if not observe.close(observe.vrepr(r1), observe.vrepr(r2), rtol=1e-12):
                        V.append({"kind": f"element-wise {cmp_} is not symmetric", "a": da, "b": db})
    cv, cc = contracts.drain()
    V.extend(BUILDER_VIOLATIONS[:3]); del BUILDER_VIOLATIONS[:]
    for v in cv:
        v["operands_of_case"] = descs[-1]
    for k, x in cc.items():
        C[k] = C.get(k, 0) + x
    return {"counters": C, "classes": sorted(classes), "violations": (V + cv)[:5], "nontrivial": nt,
            "digest": hashlib.md5(repr(descs).encode()).hexdigest()[:16],
            "sample": {"pairs": descs[:6]} if case["idx"] < 2 else None}


def run_system(case, rnd, E):
    contracts.drain()
    h = Hist(rnd, case["tier"])
    classes = {"system"} | set(gen.topo_classes(h.spec))
    if not h.build_error:
        for _ in range(4):
            if h.apply(h.propose()) is not None:
                break
    cv, cc = contracts.drain()
    C = dict(cc)
    C["internal_calls_in_system_workloads"] = sum(v for k, v in cc.items() if k.startswith("op_"))
    for v in cv:
        v["history"] = h.log[-6:]
    return {"counters": C, "classes": sorted(classes), "violations": cv[:5], "nontrivial": not h.build_error,
            "digest": observe.digest(observe.snapshot(h.system)) if not h.build_error else None, "sample": None}


def run_case(case):
    E = env.load()
    contracts.install()
    rnd = case_rng(case["seed"], case["idx"], "C09")
    return run_pairs(case, rnd, E) if case["kind"] == "pairs" else run_system(case, rnd, E)
