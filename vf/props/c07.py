"""C07 — every computed value is reproduced by the formula it displays (trace-tree re-evaluation + operator contracts)."""
import math, hashlib
import numpy as np
from .. import env, gen, observe, contracts, edits
from ..history import Hist, case_rng

ID = "C07"
LEVEL = "exploration"
RULE = ("case = generated system (plain or with builder classes) + edit history (+ optionally a simulation toggled on). At every quiescent "
        "point the monitor walks left_parent/right_parent from every calculated value (and every dict entry) of every object and "
        "re-evaluates each node whose operator is + - * / (and negate/abs/sum/max/duplicate) from its recorded operands with plain float "
        "arithmetic on base-unit magnitudes (timestamp alignment, missing = 0), checks the dimension, explain() and labels, and that "
        "leaves are labelled (and sourced when attached inputs). Operator contracts check on every call that the recorded parents ARE "
        "the operands. distinct = digest of the final snapshot; non-trivial = >= 50 arithmetic nodes re-evaluated")
BUDGET = {"quick": 260, "thorough": 1800}
N = {"quick": 110, "thorough": 2000}
ARITH = ("+", "-", "*", "/")


def cases(tier, seed):
    return [{"seed": seed, "idx": i, "tier": tier, "n_edits": 4 if tier == "quick" else 7} for i in range(N[tier])]


def requirements(tier):
    k = 1 if tier == "quick" else 15
    return {"min_counters": {"arith_nodes_reevaluated": 30000 * k, "explain_calls": 3000 * k, "leaves_checked": 10000 * k,
                             "parents_recorded_checked": 20000 * k, "walks_after_edit": 150 * k, "walks_with_simulation_on": 8 * k,
                             "nodes_with_empty_operand": 300 * k},
            "required_classes": ["builders", "job_shared_by_2_patterns", "jobless_pattern", "multi_timezone"]}


def ser(r):
    return {} if r[0] == "empty" else dict(zip(r[3], (float(x) for x in r[4])))


def evaluate(E, node, memo):
    """None if the node is reproduced by its recorded operation, else a description"""
    op = node.operator
    L, R = node.left_parent, node.right_parent
    rn = memo(node)
    if op in ARITH and L is not None and R is not None:
        rl, rr = memo(L), memo(R)
        kl, kr = rl[0], rr[0]
        if kl not in ("q", "h", "empty") or kr not in ("q", "h", "empty"):
            return None, "skipped"
        empty = "empty" in (kl, kr)
        if op in ("+", "-"):
            if kl == "empty" and kr == "empty":
                exp = ("empty",)
            elif kr == "empty":
                exp = rl
            elif kl == "empty":
                if op == "-":
                    return None, "skipped"
                exp = rr
            elif kl == "q" and kr == "q":
                if rl[1] != rr[1]:
                    return f"operands of {op} have different dimensions {rl[1]} / {rr[1]}", "bad"
                exp = ("q", rl[1], rl[2] + rr[2] if op == "+" else rl[2] - rr[2])
            elif kl == "h" and kr == "h":
                if rl[1] != rr[1]:
                    return f"operands of {op} have different dimensions", "bad"
                if op == "-" and rl[3] != rr[3]:
                    return None, "skipped"
                a, b = ser(rl), ser(rr)
                d = dict(a)
                for t, x in b.items():
                    d[t] = d.get(t, 0.0) + (x if op == "+" else -x)
                exp = ("hd", rl[1], d, max([abs(x) for x in list(a.values()) + list(b.values())] + [0.0]))
            else:
                return None, "skipped"
        else:
            if empty:
                exp = ("empty",)
            else:
                try:
                    dexp = contracts.mul_dim(E, L, R, div=(op == "/"))
                except Exception:
                    dexp = None
                if kl == "q" and kr == "q":
                    if op == "/" and rr[2] == 0:
                        return None, "skipped"
                    exp = ("q", dexp, rl[2] * rr[2] if op == "*" else rl[2] / rr[2])
                else:
                    a = ser(rl) if kl == "h" else None
                    b = ser(rr) if kr == "h" else None
                    if a is not None and b is not None:
                        if op == "/":
                            return None, "skipped"
                        d = {t: a.get(t, 0.0) * b.get(t, 0.0) for t in set(a) | set(b)}
                    elif a is not None:
                        if op == "/" and rr[2] == 0:
                            return None, "skipped"
                        d = {t: (x * rr[2] if op == "*" else x / rr[2]) for t, x in a.items()}
                    else:
                        if op == "/" and any(x == 0 for x in b.values()):
                            return None, "skipped"
                        d = {t: (rl[2] * x if op == "*" else rl[2] / x) for t, x in b.items()}
                    exp = ("hd", dexp, d, max([abs(x) for x in d.values()] + [0.0]))
        # compare
        if exp[0] == "h":
            d_ = ser(exp)
            exp = ("hd", exp[1], d_, max([abs(x) for x in d_.values()] + [0.0]))
        if exp[0] == "empty":
            ok = rn[0] == "empty" or observe._is_zero(rn)
        elif exp[0] == "q":
            ok = rn[0] == "q" and (exp[1] is None or rn[1] == exp[1]) and abs(rn[2] - exp[2]) <= 1e-9 * max(abs(rn[2]), abs(exp[2]), 1e-300)
        else:
            got = ser(rn) if rn[0] == "h" else None
            ok = got is not None and (exp[1] is None or rn[1] == exp[1]) and all(
                abs(got.get(t, 0.0) - exp[2].get(t, 0.0)) <= 1e-9 * max(exp[3], 1e-300) for t in set(got) | set(exp[2]))
            if ok and set(got) != set(exp[2]):
                # hours displayed by the node but absent from the re-evaluation (or the reverse) must carry zero
                pass
        if not ok:
            return (f"node '{node.label or ''}' = left {op} right is not reproduced: displayed {observe.describe(rn)}, "
                    f"left {observe.describe(rl)}, right {observe.describe(rr)}"), "bad"
        return None, ("arith_empty" if empty else "arith")
    if op in ("negate", "abs", "duplicate", "sum", "max") and L is not None and R is None:
        rl = memo(L)
        if rl[0] == "h":
            v = rl[4]
            if op == "negate": ok = rn[0] == "h" and rn[3] == rl[3] and np.allclose(rn[4], -v, rtol=1e-12, atol=0)
            elif op == "abs": ok = rn[0] == "h" and rn[3] == rl[3] and np.allclose(rn[4], np.abs(v), rtol=1e-12, atol=0)
            elif op == "duplicate": ok = observe.close(rn, rl, rtol=1e-12)
            elif op == "sum": ok = rn[0] == "q" and rn[1] == rl[1] and abs(rn[2] - float(np.sum(v))) <= 1e-9 * max(float(np.sum(np.abs(v))), 1e-300)
            else: ok = rn[0] == "q" and rn[1] == rl[1] and abs(rn[2] - float(np.max(v))) <= 1e-12 * max(abs(float(np.max(v))), 1e-300)
            if not ok:
                return f"node '{node.label or ''}' = {op}(parent) is not reproduced: displayed {observe.describe(rn)}, parent {observe.describe(rl)}", "bad"
            return None, "unary"
        if rl[0] == "q" and op == "duplicate":
            if not observe.close(rn, rl, rtol=1e-12):
                return f"duplicate differs from its parent: {observe.describe(rn)} vs {observe.describe(rl)}", "bad"
            return None, "unary"
    return None, "other"


def check_inputs(E, spec, objs, V, C, ctx):
    """every input given as a sourced value is held by its object as that very kind of value: a leaf (no operands) with its source"""
    from ..spec import reachable
    for n in reachable(spec):
        o = spec["objects"][n]
        if n not in objs:
            continue
        for p, vs in o["params"].items():
            if vs[0] not in ("q", "h", "s", "tz"):
                continue
            live = objs[n].__dict__.get(p)
            if not isinstance(live, E.ExplainableObject) or isinstance(live, E.EmptyExplainableObject):
                continue
            C["input_leaves_checked"] = C.get("input_leaves_checked", 0) + 1
            if live.left_parent is not None or live.right_parent is not None:
                V.append({"kind": "an input given as a source value is held as a derived value", "object": n, "input": p, **ctx})
            elif getattr(live, "source", None) is None:
                V.append({"kind": "an input given as a source value is held without its source", "object": n, "input": p, **ctx})
            if len(V) > 4:
                return


def walk_system(E, system, objs_list, V, C, ctx, strict_current=True):
    cache = {}

    def memo(x):
        k = id(x)
        if k not in cache:
            cache[k] = observe.vrepr(x)
        return cache[k]
    seen = set()
    for o in objs_list:
        for attr in o.calculated_attributes:
            top = o.__dict__.get(attr)
            values = list(top.values()) if isinstance(top, dict) else [top]
            if isinstance(top, dict) and top.modeling_obj_container is None:
                V.append({"kind": "calculated dict attribute is not attached", "object": o.name, "attribute": attr, **ctx})
            for v in values:
                if not isinstance(v, E.ExplainableObject):
                    continue
                C["calculated_values_walked"] += 1
                if not v.label:
                    V.append({"kind": "calculated attribute without label", "object": o.name, "attribute": attr, **ctx})
                try:
                    C["explain_calls"] += 1
                    s = v.explain()
                    if not isinstance(s, str) or not s.strip():
                        V.append({"kind": "explain() returned nothing", "object": o.name, "attribute": attr, **ctx})
                except Exception as e:
                    V.append({"kind": f"explain() raised {type(e).__name__}: {str(e)[:160]}", "object": o.name, "attribute": attr, **ctx})
                stack = [v]
                while stack:
                    n = stack.pop()
                    if id(n) in seen:
                        continue
                    seen.add(id(n))
                    if strict_current and n.modeling_obj_container is None and getattr(n, "initial_modeling_obj_container", None) is not None:
                        # the formula of a current value displays a value that was an attribute of an object and has been replaced since
                        C["superseded_operands"] = C.get("superseded_operands", 0) + 1
                        V.append({"kind": "the explanation of a current value displays a value the model no longer holds (superseded)",
                                  "operand": n.label, "was_in": getattr(n.initial_modeling_obj_container, "name", None), "under": [o.name, attr], **ctx})
                        if len(V) > 4:
                            return
                    if n.left_parent is None and n.right_parent is None:
                        C["leaves_checked"] += 1
                        attached = n.modeling_obj_container is not None
                        if not n.label:
                            V.append({"kind": "leaf of an explanation without label", "under": [o.name, attr], **ctx})
                        elif attached and not isinstance(n, E.EmptyExplainableObject) and n.attr_name_in_mod_obj_container not in n.modeling_obj_container.calculated_attributes \
                                and getattr(n, "source", None) is None:
                            V.append({"kind": "leaf input without source", "leaf": n.label, "under": [o.name, attr], **ctx})
                        continue
                    try:
                        msg, kind = evaluate(E, n, memo)
                    except Exception as e:
                        msg, kind = None, "monitor_error"
                        C["monitor_errors"] += 1
                        if C["monitor_errors"] <= 2:
                            V.append({"kind": f"MONITOR ERROR (harness) {type(e).__name__}: {str(e)[:200]}", **ctx})
                    if kind in ("arith", "arith_empty"):
                        C["arith_nodes_reevaluated"] += 1
                        if kind == "arith_empty":
                            C["nodes_with_empty_operand"] += 1
                    elif kind == "unary":
                        C["unary_nodes_reevaluated"] += 1
                    elif kind == "skipped":
                        C["nodes_skipped"] += 1
                    if msg:
                        V.append({"kind": "explanation node not reproduced by its recorded operation", "detail": msg, "under": [o.name, attr], **ctx})
                        if len(V) > 4:
                            return
                    for p in (n.left_parent, n.right_parent):
                        if p is not None and isinstance(p, E.ExplainableObject):
                            stack.append(p)


def run_case(case):
    E = env.load()
    contracts.install(); contracts.drain()
    rnd = case_rng(case["seed"], case["idx"], "C07")
    from .c17 import builder_spec
    spec = builder_spec(rnd) if case["idx"] % 4 == 1 else None
    h = Hist(rnd, case["tier"], spec=spec)
    C = {k: 0 for k in ("arith_nodes_reevaluated", "unary_nodes_reevaluated", "explain_calls", "leaves_checked", "calculated_values_walked",
                        "walks_after_edit", "walks_with_simulation_on", "nodes_with_empty_operand", "nodes_skipped", "monitor_errors", "build_failed")}
    classes = set(gen.topo_classes(h.spec)) | ({"builders"} if spec else set())
    if h.build_error:
        C["build_failed"] = 1
        return {"counters": C, "classes": sorted(classes), "violations": [{"kind": "builder model failed to build", "error": h.build_error}] if spec else []}
    V = []
    walk_system(E, h.system, observe.all_objects(h.system), V, C, {"when": "after build"})
    check_inputs(E, h.spec, h.objs, V, C, {"when": "after build"})
    for k in range(case["n_edits"]):
        if V:
            break
        e = h.propose()
        if h.apply(e) is not None:
            break
        C["walks_after_edit"] += 1
        walk_system(E, h.system, observe.all_objects(h.system), V, C, {"when": "after " + edits.describe(e), "history": h.log[-5:]})
        check_inputs(E, h.spec, h.objs, V, C, {"when": "after " + edits.describe(e)})
    if not V:
        # the same model built from scratch (optional inputs such as a fixed instance count then go through the constructors)
        ref, err = h.reference()
        if ref is not None:
            C["rebuilds_walked"] = C.get("rebuilds_walked", 0) + 1
            check_inputs(E, h.spec, ref, V, C, {"when": "model rebuilt from its inputs", "history": h.log[-5:]})
    if not V and case["idx"] % 5 == 0:
        from .. import sim
        try:
            changes = sim.rand_change_list(rnd, h.spec, h.objs, no_hourly=True)
            m = E.ModelingUpdate(sim.to_library_changes(changes, h.objs), sim.pick_date(rnd, h.objs, h.spec, "first"))
            m.set_updated_values()
            C["walks_with_simulation_on"] += 1
            walk_system(E, h.system, observe.all_objects(h.system), V, C, {"when": "simulation toggled on", "changes": sim.describe_changes(changes)},
                        strict_current=False)
            m.reset_values()
        except Exception:
            pass
    cv, cc = contracts.drain()
    C["parents_recorded_checked"] = cc.get("parents_recorded_checked", 0)
    for v in cv:
        if "parents" in v["kind"] or "operator" in v["kind"]:
            V.append(v)
    return {"counters": C, "classes": sorted(classes), "violations": V[:4], "nontrivial": C["arith_nodes_reevaluated"] >= 50,
            "digest": observe.digest(observe.snapshot(h.system)), "sample": h.summary() if case["idx"] < 3 else None}
