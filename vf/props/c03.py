"""C03 — usage volumes are conserved from journey starts down to job load (reference model, Fractions + dicts)."""
import math, random
from fractions import Fraction
from .. import env, gen, observe, refmodel as R
from ..history import case_rng
from ..spec import build, obj, q, prune, names_of, reachable, SERVER_CLS, JOB_CLS
from ..series import S, scal, base, add, scale, total, mismatch, maxabs

ID = "C03"
LEVEL = "exploration"
RULE = ("case = one built system: (grid) one pattern, a job placed after k preceding steps, request duration x step time x multiplicity "
        "grid around every floor/ceil hour boundary; (random) gen.rand_spec with several patterns, zones (incl. :30/:45 and DST weeks), "
        "gaps and zero runs. Every published per-pattern / across-pattern job series, journeys in parallel, device energy and server "
        "need is compared timestamp by timestamp with a ~60 line reference (exact Fraction durations, dict series), and the "
        "conservation totals are asserted. distinct = (durations, step times, multiplicities, zones, lengths) digest; non-trivial = at "
        "least one (job, pattern) pair with non-zero occurrences was compared")
BUDGET = {"quick": 200, "thorough": 1200}
N_RANDOM = {"quick": 220, "thorough": 3500}
N_HIST = {"quick": 48, "thorough": 600}

DUR_GRID = [(0.4, "s"), (1, "s"), (59, "min"), (3599, "s"), (1, "hour"), (3601, "s"), (2.5, "hour"), (4000, "s"), (3, "hour"), (0.3, "s")]
STEP_GRID = [(0, "min"), (1, "s"), (20, "min"), (60, "min"), (61, "min"), (3, "hour"), (59.99, "min")]


def grid_cases():
    out = []
    i = 0
    for d in DUR_GRID:
        for st in STEP_GRID:
            for mult in (1, 2, 3):
                out.append({"kind": "grid", "dur": d, "step": st, "mult": mult, "k": i % 3})
                i += 1
    return out


def cases(tier, seed):
    g = grid_cases()
    if tier == "quick":
        rnd = random.Random(f"C03grid{seed}")
        g = rnd.sample(g, 90)
    cs = [dict(c, seed=seed, idx=i, tier=tier) for i, c in enumerate(g)]
    cs += [{"kind": "random", "seed": seed, "idx": len(g) + i, "tier": tier} for i in range(N_RANDOM[tier])]
    # live systems after edit histories: conservation must hold on what the incremental machinery produced, too
    cs += [{"kind": "builders", "seed": seed, "idx": len(cs) + i, "tier": tier} for i in range(12 if tier == "quick" else 150)]
    cs += [{"kind": "history", "seed": seed, "idx": len(cs) + i, "tier": tier, "n_edits": 5} for i in range(N_HIST[tier])]
    return cs


def requirements(tier):
    return {"min_counters": {"job_pattern_pairs": 600 if tier == "quick" else 8000, "series_compared": 3000, "parallel_compared": 200,
                             "server_need_compared": 200, "conservation_totals": 1500, "boundary_durations": 20, "live_checks_after_edit": 100},
            "required_classes": ["job_repeated_in_step", "multi_timezone", "zero_duration_step", "job_shared_by_2_patterns", "grid", "history", "service_jobs"]}


def grid_spec(c, rnd):
    O = {}
    O["st"] = obj("Storage")
    O["srv"] = obj("Server", storage=["ref", "st"], server_type=["s", "serverless"])
    O["j"] = obj("Job", server=["ref", "srv"], request_duration=q(*c["dur"]), data_transferred=q(3.137, "MB"), data_stored=q(237, "kB"),
                 compute_needed=q(1.3, "cpu_core"), ram_needed=q(537, "MB"))
    O["other"] = obj("Job", server=["ref", "srv"], request_duration=q(90, "s"))
    steps = []
    for i in range(c["k"]):
        O[f"pre{i}"] = obj("UsageJourneyStep", user_time_spent=q(*c["step"]), jobs=["refs", ["other"] if i == 0 else []])
        steps.append(f"pre{i}")
    O["s"] = obj("UsageJourneyStep", user_time_spent=q(*rnd.choice(STEP_GRID)), jobs=["refs", ["j"] * min(c["mult"], 2)])
    steps.append("s")
    if c["mult"] == 3:
        O["s2"] = obj("UsageJourneyStep", user_time_spent=q(*c["step"]), jobs=["refs", ["j"]])
        steps.append("s2")
    O["uj"] = obj("UsageJourney", uj_steps=["refs", steps])
    O["n"] = obj("Network")
    O["c"] = obj("Country", short_name=["str", "X"], timezone=["tz", rnd.choice(gen.ZONES)])
    O["d"] = obj("Device")
    n = rnd.choice([3, 7, 26, 50])
    vals = [rnd.choice([0, 0, 10, 137, 2513]) for _ in range(n)]
    if not any(vals):
        vals[rnd.randrange(n)] = 137
    O["up"] = obj("UsagePattern", usage_journey=["ref", "uj"], network=["ref", "n"], country=["ref", "c"], devices=["refs", ["d"]],
                  hourly_usage_journey_starts=["h", vals, rnd.choice(gen.STARTS), "dimensionless"])
    O["system"] = {"cls": "System", "params": {"usage_patterns": ["refs", ["up"]]}}
    return {"objects": O, "system": "system"}


def check(spec, objs):
    """compare every published volume series with the reference. returns (violations, counters, nontrivial)"""
    E = env.load()
    O = spec["objects"]
    names = reachable(spec)
    ups = [n for n in O[spec["system"]]["params"]["usage_patterns"][1]]
    jobs = [n for n in names if O[n]["cls"] in JOB_CLS]
    V = []
    C = {"job_pattern_pairs": 0, "series_compared": 0, "parallel_compared": 0, "server_need_compared": 0, "conservation_totals": 0,
         "boundary_durations": 0, "device_energy_compared": 0}
    nontrivial = False
    starts = {}
    for up in ups:
        s = S(objs[up].utc_hourly_usage_journey_starts)
        loc = O[up]["params"]["hourly_usage_journey_starts"][1]
        C["conservation_totals"] += 1
        if abs(total(s) - sum(loc)) > 1e-9 * max(1.0, sum(loc)):
            V.append({"kind": "UTC starts total != local starts total", "pattern": up, "utc": total(s), "local": sum(loc)})
        starts[up] = s
    across = {j: {"occ": {}, "avg": {}, "dt": {}, "ds": {}} for j in jobs}
    derived = {}
    for j in jobs:
        P = O[j]["params"]
        if "request_duration" not in P or "data_transferred" not in P:
            # service jobs: duration and amounts are derived by the builder (C17 checks the derivation); the conservation laws
            # are checked on the derived values as published
            P = dict(P)
            for a in ("request_duration", "data_transferred", "data_stored", "ram_needed", "compute_needed"):
                v = getattr(objs[j], a)
                P[a] = ["q", 0.0, "s"] if isinstance(v, E.EmptyExplainableObject) else ["q", float(v.value.magnitude), str(v.value.units)]
            derived[j] = P
            q_ = E.u.Quantity(P["request_duration"][1], P["request_duration"][2]).to("hour").magnitude
            d = Fraction(float(q_)).limit_denominator(10**9)
        else:
            d = R.hours(P["request_duration"])
        if abs(d - round(d)) < Fraction(1, 10**9) and d > 0:
            C["boundary_durations"] += 1
        amounts = {"dt": base(P["data_transferred"]), "ds": base(P["data_stored"])}
        live = {"occ": objs[j].hourly_occurrences_per_usage_pattern, "avg": objs[j].hourly_avg_occurrences_per_usage_pattern,
                "dt": objs[j].hourly_data_transferred_per_usage_pattern, "ds": objs[j].hourly_data_stored_per_usage_pattern}
        for up in ups:
            cands, mult = R.occurrence_candidates(spec, j, up, starts[up])
            keys = {k: [x for x in live[k] if x.name == up] for k in live}
            if cands is None:
                for k in live:
                    if keys[k] and total(S(live[k][keys[k][0]])) != 0:
                        V.append({"kind": "job has volumes in a pattern it does not belong to", "job": j, "pattern": up, "series": k})
                continue
            C["job_pattern_pairs"] += 1
            if any(not keys[k] for k in live):
                if total(starts[up]) != 0:
                    V.append({"kind": "missing per-pattern entry", "job": j, "pattern": up})
                continue
            pub = {k: S(live[k][keys[k][0]]) for k in live}
            if total(pub["occ"]) > 0:
                nontrivial = True
            # placement: one of the admissible occurrence series
            chosen = None
            for c in cands:
                if mismatch(pub["occ"], c) is None:
                    chosen = c; break
            C["series_compared"] += 1
            if chosen is None:
                mm = mismatch(pub["occ"], cands[0])
                V.append({"kind": "occurrences misplaced or lost", "job": j, "pattern": up, "at": mm[0], "published": mm[1], "reference": mm[2],
                          "published_total": total(pub["occ"]), "reference_total": total(cands[0])})
                continue
            for k, cs in (("avg", R.avg_candidates(chosen, d)), ("dt", R.data_candidates(chosen, d, amounts["dt"])),
                          ("ds", R.data_candidates(chosen, d, amounts["ds"]))):
                C["series_compared"] += 1
                mm = R.matches_any(pub[k], cs)
                if mm:
                    V.append({"kind": f"{k} series differs from the reference", "job": j, "pattern": up, "at": mm[0], "published": mm[1], "reference": mm[2]})
            # conservation totals
            st_tot = total(starts[up])
            C["conservation_totals"] += 4
            tol = 1e-9
            if abs(total(pub["occ"]) - st_tot * mult) > tol * max(1.0, st_tot * mult):
                V.append({"kind": "sum(occurrences) != sum(starts) x multiplicity", "job": j, "pattern": up, "got": total(pub["occ"]), "expected": st_tot * mult})
            for k in ("dt", "ds"):
                exp = total(pub["occ"]) * amounts[k]
                if d > 0 and abs(total(pub[k]) - exp) > tol * max(abs(exp), 1e-30):
                    V.append({"kind": f"sum({k}) != occurrences x amount", "job": j, "pattern": up, "got": total(pub[k]), "expected": exp})
            exp = total(pub["occ"]) * float(d)
            if abs(total(pub["avg"]) - exp) > tol * max(abs(exp), 1e-30):
                V.append({"kind": "occurrence-hours != occurrences x duration", "job": j, "pattern": up, "got": total(pub["avg"]), "expected": exp})
            for k in pub:
                across[j][k] = add(across[j][k], pub[k])
        for k, attr in (("occ", "hourly_occurrences_across_usage_patterns"), ("avg", "hourly_avg_occurrences_across_usage_patterns"),
                        ("dt", "hourly_data_transferred_across_usage_patterns"), ("ds", "hourly_data_stored_across_usage_patterns")):
            C["series_compared"] += 1
            mm = mismatch(S(getattr(objs[j], attr)), across[j][k])
            if mm:
                V.append({"kind": f"{attr} != sum over patterns", "job": j, "at": mm[0], "published": mm[1], "reference": mm[2]})
    # journeys in parallel and device energy
    for up in ups:
        P = O[up]["params"]
        dur = R.journey_duration(spec, P["usage_journey"][1])
        C["parallel_compared"] += 1
        par = S(objs[up].nb_usage_journeys_in_parallel)
        mm = R.matches_any(par, R.avg_candidates(starts[up], dur))
        if mm:
            V.append({"kind": "journeys in parallel differ from the reference", "pattern": up, "at": mm[0], "published": mm[1], "reference": mm[2]})
        exp = total(starts[up]) * float(dur)
        C["conservation_totals"] += 1
        if abs(total(par) - exp) > 1e-9 * max(abs(exp), 1e-30):
            V.append({"kind": "sum(journeys in parallel) != starts x journey duration", "pattern": up, "got": total(par), "expected": exp})
        power = sum(base(O[dv]["params"]["power"]) for dv in P["devices"][1])
        C["device_energy_compared"] += 1
        mm = mismatch(S(objs[up].devices_energy), scale(par, power * 3600.0))
        if mm:
            V.append({"kind": "devices_energy != journeys in parallel x sum(power) x 1h", "pattern": up, "at": mm[0], "published": mm[1], "reference": mm[2]})
    # server needs
    for s in [n for n in names if O[n]["cls"] in SERVER_CLS]:
        for res, attr in (("ram_needed", "hour_by_hour_ram_need"), ("compute_needed", "hour_by_hour_compute_need")):
            exp = {}
            for j in jobs:
                PP = derived.get(j, O[j]["params"])
                if gen.server_of_job(spec, j) == s and res in PP:
                    exp = add(exp, across[j]["avg"], base(PP[res]))
            C["server_need_compared"] += 1
            mm = mismatch(S(getattr(objs[s], attr)), exp)
            if mm:
                V.append({"kind": f"{attr} != sum_j occurrence-hours x need", "server": s, "at": mm[0], "published": mm[1], "reference": mm[2]})
    return V, C, nontrivial


def run_history(case, rnd):
    from ..history import Hist
    from .. import edits
    h = Hist(rnd, case["tier"])
    classes = set(gen.topo_classes(h.spec)) | {"history"}
    tot = {"live_checks_after_edit": 0}
    if h.build_error:
        return {"counters": {"build_failed": 1}, "classes": sorted(classes), "violations": [], "nontrivial": False}
    V, nt = [], False
    for k in range(case["n_edits"]):
        risky = rnd.random() < 0.25
        e = edits.risky_edit(rnd, h.spec, h.objs) if risky else h.propose(["num", "num", "link", "list_assign", "list_mut", "list_mut", "starts", "group", "step_time", "step_time", "simulate", "delete_pattern"])
        if e is None:
            continue
        if h.apply(e) is not None:
            # a refused edit (whatever the exception type) leaves a model in which volumes are still conserved
            tot["checks_after_refused_edit"] = tot.get("checks_after_refused_edit", 0) + 1
            if not risky:
                break
        v, c, n = check(h.spec, h.objs)
        nt = nt or n
        tot["live_checks_after_edit"] += 1
        for kk, x in c.items():
            tot[kk] = tot.get(kk, 0) + x
        if v:
            for item in v[:4]:
                item["after_edit"] = edits.describe(e); item["history"] = h.log[-6:]
            V = v[:4]
            break
    return {"counters": tot, "classes": sorted(classes), "violations": V, "nontrivial": nt,
            "digest": observe.digest(observe.snapshot(h.system)), "sample": None}


def run_case(case):
    rnd = case_rng(case["seed"], case["idx"], "C03")
    classes = set()
    if case["kind"] == "history":
        return run_history(case, rnd)
    if case["kind"] == "grid":
        spec = grid_spec(case, rnd); classes.add("grid")
    elif case["kind"] == "builders":
        from .c17 import builder_spec
        spec = builder_spec(rnd); classes.add("service_jobs")
    else:
        spec = gen.rand_spec(rnd, case["tier"])
    classes |= gen.topo_classes(spec)
    env.seed_ids(rnd.getrandbits(32))
    try:
        objs = build(spec)
    except Exception as e:
        return {"counters": {"build_failed": 1}, "classes": sorted(classes), "violations": [], "nontrivial": False}
    V, C, nt = check(spec, objs)
    for v in V:
        v["case"] = {k: case[k] for k in case if k in ("kind", "dur", "step", "mult", "k")}
    O = spec["objects"]
    dg = str(sorted((n, str(o["params"].get("request_duration")), str(o["params"].get("user_time_spent")), str(o["params"].get("jobs")),
                     str(o["params"].get("uj_steps")), str(o["params"].get("timezone")),
                     len(o["params"]["hourly_usage_journey_starts"][1]) if "hourly_usage_journey_starts" in o["params"] else 0)
                    for n, o in O.items()))
    import hashlib
    sample = None
    if case["idx"] % 97 == 0:
        sample = {"case": case, "objects": {n: {k: v for k, v in o["params"].items() if v[0] != "h"} for n, o in list(O.items())[:8]},
                  "compared": C}
    return {"counters": C, "classes": sorted(classes), "violations": V[:6], "nontrivial": nt,
            "digest": hashlib.md5(dg.encode()).hexdigest()[:16], "sample": sample}
