"""C11 — local-time usage is converted to UTC without losing or inventing traffic (post-condition monitor, pytz oracle)."""
import bisect, hashlib, random
from datetime import datetime, timedelta
import numpy as np
from .. import env
from ..history import case_rng

ID = "C11"
LEVEL = "exploration"
RULE = ("case = (IANA zone, naive local start date placed before a UTC-offset transition of that zone found in 1990-2037, length chosen so that "
        "the series ends -3..+3 h around the transition or runs 24-1200 h past it). The series carries unique values; the monitor "
        "classifies every local hour with pytz (valid / ambiguous / non-existent) and checks: strictly increasing unique UTC index, total "
        "preserved, every valid hour exactly at local - offset, the remainder non-negative, supported only on admissible instants of the "
        "ambiguous / skipped hours and summing to exactly their values. Every case runs through ExplainableHourlyQuantities.convert_to_utc "
        "and through UsagePattern.update_utc_hourly_usage_journey_starts of a real usage pattern. distinct = (zone, start, length); "
        "non-trivial = the series contains at least one ambiguous or non-existent local hour")
BUDGET = {"quick": 200, "thorough": 1500}
SPECIAL = ["Asia/Kolkata", "Asia/Kathmandu", "Australia/Lord_Howe", "Australia/Adelaide", "America/St_Johns", "Pacific/Apia", "Pacific/Chatham",
           "America/Anchorage", "America/Juneau", "America/Nome", "Antarctica/Troll", "Europe/London", "Europe/Lisbon", "Europe/Paris",
           "America/New_York", "America/Sao_Paulo", "Africa/Casablanca", "Asia/Tehran", "Pacific/Kiritimati", "UTC", "Atlantic/Azores",
           "America/Havana", "Asia/Gaza", "Australia/Sydney", "America/Santiago", "Europe/Dublin", "Africa/Cairo", "America/Asuncion",
           "Pacific/Norfolk", "America/Caracas", "Asia/Pyongyang", "Europe/Moscow", "Pacific/Tongatapu", "America/Scoresbysund",
           "Antarctica/Casey", "Asia/Colombo", "Africa/Monrovia", "America/Godthab", "Europe/Istanbul", "Asia/Amman"]


def zones_for(tier, E):
    allz = list(E.pytz.common_timezones)
    if tier == "quick":
        return [z for z in SPECIAL if z in E.pytz.all_timezones]
    return allz


def transitions(tz):
    tt = getattr(tz, "_utc_transition_times", None) or []
    return [t for t in tt if 1990 <= t.year <= 2037]


def cases(tier, seed):
    E = env.load()
    rnd = random.Random(f"C11-{seed}")
    out = []
    per_zone = 6 if tier == "quick" else 16
    for z in zones_for(tier, E):
        tz = E.pytz.timezone(z)
        tr = transitions(tz)
        picks = rnd.sample(tr, min(per_zone, len(tr))) if tr else []
        # always include recent transitions (what users model)
        recent = [t for t in tr if 2024 <= t.year <= 2026]
        picks = list(dict.fromkeys(picks + recent[:4]))
        if not picks:
            picks = [datetime(2025, 3, 30, 1)]
        out.append({"zone": z, "transitions": [t.isoformat() for t in picks], "seed": seed, "tier": tier, "idx": len(out)})
    # the countries of the library's catalogue, against the civil time of each country (the harness' own table of IANA zones)
    for cname, z in CATALOGUE.items():
        tz = E.pytz.timezone(z)
        recent = [t for t in transitions(tz) if 2024 <= t.year <= 2026] or [datetime(2025, 3, 30, 1)]
        out.append({"zone": z, "catalogue_country": cname, "transitions": [t.isoformat() for t in recent[:6]], "seed": seed, "tier": tier, "idx": len(out)})
    return out


CATALOGUE = {"FRANCE": "Europe/Paris", "GERMANY": "Europe/Berlin", "FINLAND": "Europe/Helsinki", "AUSTRIA": "Europe/Vienna", "POLAND": "Europe/Warsaw",
             "NORWAY": "Europe/Oslo", "HUNGARY": "Europe/Budapest", "UNITED_KINGDOM": "Europe/London", "BELGIUM": "Europe/Brussels", "ITALY": "Europe/Rome",
             "ROMANIA": "Europe/Bucharest", "MALAYSIA": "Asia/Kuala_Lumpur", "MOROCCO": "Africa/Casablanca", "TUNISIA": "Africa/Tunis",
             "ALGERIA": "Africa/Algiers", "SENEGAL": "Africa/Dakar"}


def requirements(tier):
    return {"min_counters": {"conversions_checked": 2000 if tier == "quick" else 30000, "pattern_level_checked": 2000, "ambiguous_hours": 200,
                             "nonexistent_hours": 200, "ends_near_transition": 500, "non_whole_hour_offset_zone": 100},
            "required_classes": ["gap", "overlap", "half_hour_zone", "ends_inside_gap_neighbourhood", "long_series", "catalogue_country", "live_country_moves"]}


def classify(tz, t, pytz):
    """('valid', utc) | ('ambiguous', [utc1, utc2]) | ('nonexistent', None) for a naive local datetime"""
    try:
        a = tz.localize(t, is_dst=None)
        return "valid", a.astimezone(pytz.utc).replace(tzinfo=None)
    except pytz.exceptions.AmbiguousTimeError:
        return "ambiguous", [tz.localize(t, is_dst=d).astimezone(pytz.utc).replace(tzinfo=None) for d in (True, False)]
    except pytz.exceptions.NonExistentTimeError:
        return "nonexistent", None


def oracle(tz, start, values, result_index, result_values, pytz, trans_utc):
    """returns a violation dict or None, plus counts"""
    n = len(values)
    counts = {"ambiguous": 0, "nonexistent": 0}
    res = {}
    prev = None
    for ts, v in zip(result_index, result_values):
        if prev is not None and not (ts > prev):
            return {"kind": "UTC index not strictly increasing / duplicated", "at": str(ts), "previous": str(prev)}, counts
        prev = ts
        res[ts] = res.get(ts, 0.0) + v
    tot_in, tot_out = float(sum(values)), float(sum(result_values))
    if abs(tot_in - tot_out) > 1e-9 * max(1.0, abs(tot_in)):
        return {"kind": "total not preserved", "local_total": tot_in, "utc_total": tot_out}, counts
    expected = {}
    special_total = 0.0
    admissible = set()
    ranges = []
    for i, v in enumerate(values):
        t = start + timedelta(hours=i)
        kind, u = classify(tz, t, pytz)
        if kind == "valid":
            expected[u] = expected.get(u, 0.0) + v
        elif kind == "ambiguous":
            counts["ambiguous"] += 1
            special_total += v
            admissible.update(u)
        else:
            counts["nonexistent"] += 1
            special_total += v
            # admissible instants: between the two readings of this wall time with the offsets in force before and after the
            # transition that skipped it, widened by 3 h (where exactly a skipped hour lands is not pinned by the property)
            offs = []
            for dd in (-24, 24, -49, 49, -2, 2):
                kk, uu = classify(tz, t + timedelta(hours=dd), pytz)
                if kk == "valid":
                    offs.append((t + timedelta(hours=dd)) - uu)
            if not offs:
                offs = [timedelta(0)]
            ranges.append((t - max(offs) - timedelta(hours=3), t - min(offs) + timedelta(hours=3)))
    rem_total = 0.0
    for ts in set(res) | set(expected):
        r = res.get(ts, 0.0) - expected.get(ts, 0.0)
        if r < -1e-9 * max(1.0, abs(expected.get(ts, 0.0))):
            return {"kind": "a valid local hour is not at local time - UTC offset (value missing at its instant)", "utc_instant": str(ts),
                    "published": res.get(ts, 0.0), "expected_at_least": expected.get(ts, 0.0)}, counts
        if r > 1e-9 * max(1.0, abs(expected.get(ts, 0.0))):
            if ts not in admissible and not any(lo <= ts <= hi for lo, hi in ranges):
                return {"kind": "traffic placed on an instant that no local hour maps to", "utc_instant": str(ts), "extra": r}, counts
            rem_total += r
    if abs(rem_total - special_total) > 1e-9 * max(1.0, special_total):
        return {"kind": "repeated / skipped hours not merged exactly once", "values_of_those_hours": special_total, "found": rem_total}, counts
    return None, counts


def run_case(case):
    E = env.load()
    pytz = E.pytz
    rnd = case_rng(case["seed"], case["idx"], "C11")
    z = case["zone"]
    tz = pytz.timezone(z)
    tzobj = E.SourceObject(tz)
    C = {k: 0 for k in ("conversions_checked", "pattern_level_checked", "ambiguous_hours", "nonexistent_hours", "ends_near_transition",
                        "non_whole_hour_offset_zone", "series_with_special_hours")}
    classes, V = set(), []
    all_tr = [t for t in (getattr(tz, "_utc_transition_times", None) or []) if t.year > 1]
    # a real usage pattern (no system needed to run its update rule)
    st = E.Storage.ssd("st"); srv = E.Server.from_defaults("srv", storage=st)
    job = E.Job.from_defaults("j", server=srv)
    uj = E.UsageJourney("uj", [E.UsageJourneyStep("s", E.SourceValue(1 * E.u.min), [job])])
    country = E.Country("c", "C", E.SourceValue(100 * E.u.g / E.u.kWh), E.SourceObject(tz))
    if case.get("catalogue_country"):
        # the country comes from the library's catalogue; the oracle keeps using the harness' own zone for that country
        from efootprint.constants.countries import Countries
        country = getattr(Countries, case["catalogue_country"])()
        tzobj = country.timezone
        classes.add("catalogue_country"); C["catalogue_countries"] = 1
    net = E.Network.wifi_network(); dev = E.Device.laptop()
    off_now = tz.utcoffset(datetime(2025, 1, 15)) if hasattr(tz, "utcoffset") else timedelta(0)
    if off_now is not None and (off_now.total_seconds() % 3600) != 0:
        classes.add("half_hour_zone")
    digests = []
    nt = False
    for tiso in case["transitions"]:
        tr_utc = datetime.fromisoformat(tiso)
        # local wall time just before the transition
        try:
            local_tr = pytz.utc.localize(tr_utc).astimezone(tz).replace(tzinfo=None)
        except Exception:
            local_tr = tr_utc
        local_tr = local_tr.replace(minute=0, second=0, microsecond=0)
        variants = []
        for end_off in range(-3, 4):
            back = rnd.choice([2, 5, 26, 50])
            variants.append((local_tr - timedelta(hours=back), back + end_off + 1, "near"))
        variants.append((local_tr - timedelta(hours=rnd.randint(1, 72)), rnd.choice([24, 100, 400, 1200]), "long"))
        variants.append((local_tr - timedelta(hours=rnd.randint(0, 3)), rnd.randint(1, 4), "near"))
        for start, n, kind in variants:
            if n < 1:
                continue
            if kind == "near":
                C["ends_near_transition"] += 1; classes.add("ends_inside_gap_neighbourhood")
            else:
                classes.add("long_series")
            values = [float(i + 1) + 0.001 * ((i * 7919) % 997) for i in range(n)]
            src = E.create_source_hourly_values_from_list(list(values), start)
            for level in ("operator", "pattern"):
                try:
                    if level == "operator":
                        r = src.convert_to_utc(tzobj)
                    else:
                        up = E.UsagePattern("up", uj, [dev], net, country, E.create_source_hourly_values_from_list(list(values), start))
                        up.update_utc_hourly_usage_journey_starts()
                        r = up.utc_hourly_usage_journey_starts
                except Exception as e:
                    V.append({"kind": f"conversion raised {type(e).__name__}: {str(e)[:120]}", "zone": z, "start": start.isoformat(), "n": n, "level": level})
                    continue
                idx = r.value.index
                if idx.tz is None or str(idx.tz) != "UTC":
                    V.append({"kind": "result index is not UTC-aware", "zone": z, "level": level}); continue
                ridx = [t.to_pydatetime().replace(tzinfo=None) for t in idx]
                rvals = [float(x) for x in r.value["value"].values._data]
                viol, cnt = oracle(tz, start, values, ridx, rvals, pytz, all_tr)
                C["conversions_checked" if level == "operator" else "pattern_level_checked"] += 1
                if level == "operator":
                    C["ambiguous_hours"] += cnt["ambiguous"]; C["nonexistent_hours"] += cnt["nonexistent"]
                    if cnt["ambiguous"]:
                        classes.add("overlap")
                    if cnt["nonexistent"]:
                        classes.add("gap")
                    if cnt["ambiguous"] or cnt["nonexistent"]:
                        nt = True; C["series_with_special_hours"] += 1
                    if "half_hour_zone" in classes:
                        C["non_whole_hour_offset_zone"] += 1
                if viol:
                    viol.update(zone=z, local_start=start.isoformat(), hours=n, level=level)
                    V.append(viol)
            digests.append((z, start.isoformat(), n))
            if len(V) > 3:
                break
    if not V and not case.get("catalogue_country"):
        # a pattern of a computed system moved from country to country (A -> B -> C -> A): after every move its UTC starts are the local
        # ones shifted with the zone of the country it is in NOW
        try:
            tiso = case["transitions"][0]
            start = datetime.fromisoformat(tiso).replace(minute=0, second=0, microsecond=0) - timedelta(hours=rnd.choice([3, 30]))
            n = rnd.choice([12, 60])
            values = [float(i + 1) + 0.001 * ((i * 7919) % 997) for i in range(n)]
            upm = E.UsagePattern("upm", uj, [dev], net, country, E.create_source_hourly_values_from_list(list(values), start))
            sysm = E.System("sys", [upm])
            others = [zz for zz in ("Asia/Tokyo", "Europe/London", "Asia/Kolkata", "America/New_York", "Europe/Paris") if zz != z]
            seq = rnd.sample(others, 2) + [z]
            for zz in seq:
                tz2 = pytz.timezone(zz)
                upm.country = E.Country("c_" + zz, "C", E.SourceValue(100 * E.u.g / E.u.kWh), E.SourceObject(tz2))
                r = upm.utc_hourly_usage_journey_starts
                ridx = [t.to_pydatetime().replace(tzinfo=None) for t in r.value.index]
                rvals = [float(x) for x in r.value["value"].values._data]
                viol, cnt = oracle(tz2, start, values, ridx, rvals, pytz, [t for t in (getattr(tz2, "_utc_transition_times", None) or []) if t.year > 1])
                C["moves_checked"] = C.get("moves_checked", 0) + 1
                if viol:
                    viol.update(zone=zz, local_start=start.isoformat(), hours=n, level="live pattern after country moves " + " -> ".join([z] + seq[:seq.index(zz) + 1]))
                    V.append(viol); break
            classes.add("live_country_moves")
        except Exception as e:
            V.append({"kind": f"moving a live pattern between countries raised {type(e).__name__}: {str(e)[:160]}", "zone": z})
    return {"counters": C, "classes": sorted(classes), "violations": V[:4], "nontrivial": nt,
            "digest": hashlib.md5(repr(digests).encode()).hexdigest()[:16],
            "sample": {"zone": z, "series": digests[:4], "counters": C} if case["idx"] % 13 == 0 else None}
