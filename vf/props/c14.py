"""C14 — invalid inputs are rejected, and a rejected edit changes nothing (complete enumeration + state observation)."""
import copy, hashlib
from .. import env, gen, edits, observe
from .. import spec as SP
from ..history import Hist, case_rng
from ..spec import build, val, param_table

ID = "C14"
LEVEL = "fault_enumeration"
EXHAUSTIVE = True
RULE = ("the finite space (class in ALL_EFOOTPRINT_CLASSES) x (constructor parameter) x (invalid kind for that parameter's type: wrong "
        "dimension, negative, bare number, string object, hourly series / scalar for hourly / value outside the declared list, quantity for "
        "categorical / wrong-class element, non-list for lists / wrong class for links / wrong dimension, negative, forbidden-by-type "
        "for optional counts) x (context: construction, assignment on a computed system, grouped update next to a valid change, the same grouped update as a dated what-if) is "
        "enumerated COMPLETELY on a model containing every class (and, thorough, at later points of edit histories of several models). "
        "Monitor: an exception must be raised, and for assignments / grouped updates the full observation (inputs, links, calculated "
        "values, id-level graph) must equal the one taken before. distinct = (class, parameter, kind, context); non-trivial = every case")
BUDGET = {"quick": 280, "thorough": 1800}
PER_CASE_TIMEOUT = {"quick": 200, "thorough": 400}
OTHER_UNITS = ["W", "kg", "s", "cpu_core", "gpu", "dimensionless"]
WRONG_CLASS = {"Server": "d0", "ServerBase": "d0", "GPUServer": "srv0", "Storage": "d0", "UsageJourney": "d0", "Network": "c0", "Country": "n0",
               "WebApplication": "video", "VideoStreaming": "web", "GenAIModel": "web", "Service": "d0", "Device": "n0", "UsagePatternList": "d0",
               "JobBase": "n0", "UsageJourneyStep": "d0", "UsagePattern": "d0"}


def cases(tier, seed):
    E = env.load()
    cs = [{"ctx": "construction", "cls": c.__name__} for c in E.ALL_CLASSES]
    nsys = 1 if tier == "quick" else 4
    for s in range(nsys):
        for c in E.ALL_CLASSES:
            cs.append({"ctx": "assignment", "cls": c.__name__, "sys": s})
            cs.append({"ctx": "grouped", "cls": c.__name__, "sys": s})
            cs.append({"ctx": "dated", "cls": c.__name__, "sys": s})
    return [dict(c, seed=seed, idx=i, tier=tier) for i, c in enumerate(cs)]


def requirements(tier):
    return {"min_counters": {"constructions_tried": 350, "assignments_tried": 330, "grouped_tried": 330, "state_comparisons": 600,
                             "classes_enumerated": 4 * 18, "owned_value_refused": 100, "list_operations_tried": 80},
            "required_classes": ["kind_wrong_dimension", "kind_negative", "kind_bare_number", "kind_string_object", "kind_hourly_for_scalar",
                                 "kind_scalar_for_hourly", "kind_outside_list", "kind_wrong_class_element", "kind_non_list", "kind_wrong_class_link",
                                 "kind_forbidden_by_server_type", "kind_owned_by_another_object", "kind_unlabelled_computed_value", "kind_wrong_class_via_insert", "kind_wrong_class_via_append",
                                 "kind_wrong_class_via_extend", "kind_wrong_class_via_iadd", "kind_wrong_class_via_setitem"]}


def invalid_values(E, cls, pname, kind_of_param, vs, objs, obj_params):
    """[(kind label, python value)] for one parameter"""
    out = []
    u = E.u
    if kind_of_param == "q":
        dim = (1 * u(vs[2])).dimensionality if vs[0] == "q" else None
        other = next(x for x in OTHER_UNITS if (1 * u(x)).dimensionality != dim)
        out.append(("wrong_dimension", E.SourceValue(3.7 * u(other))))
        out.append(("wrong_dimension_zero_magnitude", E.SourceValue(0 * u(other))))
        if pname not in cls.attributes_that_can_have_negative_values():
            mag = -abs(vs[1]) if vs[0] == "q" and vs[1] else -1.0
            out.append(("negative", E.SourceValue(mag * u(vs[2]))))
        out.append(("bare_number", 5.0))
        out.append(("string_object", E.SourceObject("abc")))
        out.append(("hourly_for_scalar", E.create_source_hourly_values_from_list([1, 2, 3])))
    elif kind_of_param == "h":
        out.append(("scalar_for_hourly", E.SourceValue(3 * u.dimensionless)))
        out.append(("bare_number", 3))
    elif kind_of_param == "s":
        lists = cls.list_values(); cond = cls.conditional_list_values()
        if pname in lists or pname in cond:
            out.append(("outside_list", E.SourceObject("definitely-not-in-the-list")))
        out.append(("quantity_for_categorical", E.SourceValue(1 * u.dimensionless)))
    elif kind_of_param == "refs":
        wrong = objs["n0"] if pname != "usage_patterns" else objs["d0"]
        if pname == "devices":
            wrong = objs["n0"]
        cur = list(getattr(objs.get("_owner"), pname)) if objs.get("_owner") is not None else []
        out.append(("wrong_class_element", [wrong]))
        out.append(("non_list", wrong))
        # the same wrong-class element handed to every list-mutating operation of the attached list (assignment context only)
        import inspect, typing
        elem_cls = typing.get_args(inspect.signature(cls.__init__).parameters[pname].annotation)[0]
        seen = set()
        for n2, o2 in objs.items():
            raw = getattr(o2, "_value", o2)
            tn = type(raw).__name__
            if n2.startswith("_") or tn in seen or tn not in ("Network", "Server", "Storage", "Device", "Job", "UsageJourneyStep", "UsageJourney", "Country"):
                continue
            if issubclass(type(raw), elem_cls):
                continue
            seen.add(tn)
            for m in ("append", "insert", "extend", "iadd", "setitem"):
                out.append((f"wrong_class_via_{m}", ListOp(m, o2, tn)))
    elif kind_of_param == "ref":
        import inspect
        ann = inspect.signature(cls.__init__).parameters[pname].annotation
        wrong_name = WRONG_CLASS.get(ann.__name__, "d0")
        out.append(("wrong_class_link", objs[wrong_name]))
    elif kind_of_param == "optq":
        out.append(("wrong_dimension", E.SourceValue(3 * u.W)))
        out.append(("negative", E.SourceValue(-2 * u.dimensionless)))
        if obj_params.get("server_type", ["s", "on-premise"])[1] in ("autoscaling", "serverless"):
            out.append(("forbidden_by_server_type", E.SourceValue(50000 * u.dimensionless)))
    return out


OPTIONAL_REFUSAL = ("owned_by_another_object", "unlabelled_computed_value")


class ListOp:
    """an invalid value that is not assigned but handed to a list-mutating operation of the attached list"""
    def __init__(self, method, element, element_class):
        self.method, self.element, self.element_class = method, element, element_class

    def run(self, owner, pname):
        lst = getattr(owner, pname)
        if self.method == "append": lst.append(self.element)
        elif self.method == "insert": lst.insert(0, self.element)
        elif self.method == "extend": lst.extend([self.element])
        elif self.method == "iadd":
            lst += [self.element]; setattr(owner, pname, lst)
        elif self.method == "setitem": lst[0] = self.element


def owned_values(E, spec, objs, target, pname, kind_of_param):
    """a valid-looking value (right type, right dimension) that is already the input of ANOTHER object: whether it is refused is
    not prescribed by the property, but a refusal must leave the model as it was (F28)"""
    if kind_of_param not in ("q", "h", "s"):
        return []
    extra = []
    cur = getattr(objs[target], pname, None)
    if kind_of_param in ("q", "h") and isinstance(cur, (E.ExplainableQuantity, E.ExplainableHourlyQuantities)):
        try:
            extra.append(("unlabelled_computed_value", cur + cur))      # right type and dimension, computed, no label (F29)
        except Exception:
            pass
    return extra + _owned(E, spec, objs, target, pname, kind_of_param)


def _owned(E, spec, objs, target, pname, kind_of_param):
    O = spec["objects"]
    mine = O[target]["params"][pname]
    for n, o in O.items():
        if n == target or n not in objs:
            continue
        for p2, vs in o["params"].items():
            if vs[0] != mine[0] or vs == mine:
                continue
            if vs[0] == "q" and (1 * E.u(vs[2])).dimensionality != (1 * E.u(mine[2])).dimensionality:
                continue
            if vs[0] == "s" and p2 != pname:
                continue
            v = getattr(objs[n], p2, None)
            if isinstance(v, E.ExplainableObject) and getattr(v, "modeling_obj_container", None) is objs[n]:
                return [("owned_by_another_object", v)]
    return []


def system_for(case, rnd):
    from .c17 import builder_spec
    spec = builder_spec(rnd)
    # make sure the model exercises every server type: csrv autoscaling (forbids a fixed count), srv0 on-premise
    spec["objects"]["srv0"]["params"]["server_type"] = ["s", "on-premise"]
    spec["objects"]["csrv"]["params"]["server_type"] = ["s", "autoscaling"]
    spec["objects"]["csrv"]["params"]["fixed_nb_of_instances"] = ["none"]
    spec["objects"]["gsrv"]["params"]["server_type"] = ["s", "serverless"]
    return spec


def first_of_class(spec, cls_name):
    return next((n for n, o in spec["objects"].items() if o["cls"] == cls_name), None)


def run_case(case):
    E = env.load()
    rnd = case_rng(case["seed"], case.get("sys", 0), "C14")       # same system for all classes of one (seed, sys)
    spec = system_for(case, rnd)
    h = Hist(rnd, case["tier"], spec=spec, id_seed=case["seed"] * 100 + case.get("sys", 0))
    C = {k: 0 for k in ("constructions_tried", "assignments_tried", "grouped_tried", "state_comparisons", "refused", "classes_enumerated",
                        "known_F19", "build_failed", "optional_refusal_accepted", "owned_value_refused", "list_operations_tried")}
    classes = set()
    if h.build_error:
        return {"counters": dict(C, build_failed=1), "classes": [], "violations": [{"kind": "the all-classes model failed to build", "error": h.build_error}]}
    if case.get("sys", 0) > 0:
        for _ in range(3 + case["sys"]):
            if h.apply(h.propose(["num", "num", "starts", "list_mut", "link"])) is not None:
                break
    cls = E.CLS[case["cls"]]
    target = first_of_class(h.spec, case["cls"])
    V, done = [], []
    if target is None:
        return {"counters": C, "classes": [], "violations": [{"kind": "no object of this class in the model", "class": case["cls"]}]}
    C["classes_enumerated"] = 1
    table = param_table(cls)
    P = h.spec["objects"][target]["params"]
    sysm = h.system
    objs = dict(h.objs)
    for pname, kind_of_param in table.items():
        if kind_of_param in ("str", "?") or pname not in P:
            continue
        for label, bad in invalid_values(E, cls, pname, kind_of_param, P[pname], objs, P) + owned_values(E, h.spec, objs, target, pname, kind_of_param):
            classes.add("kind_" + label)
            ident = {"class": case["cls"], "parameter": pname, "invalid_kind": label, "context": case["ctx"]}
            if isinstance(bad, ListOp):
                if case["ctx"] != "assignment" or not len(getattr(objs[target], pname)):
                    continue
                ident["element_class"] = bad.element_class
            done.append((pname, label))
            if case["ctx"] == "construction":
                C["constructions_tried"] += 1
                kwargs = {p: val(vs, objs) for p, vs in P.items()}
                kwargs[pname] = bad
                try:
                    new = cls("probe", **kwargs)
                    mech = "F19-wrong-class-link-accepted-at-construction" if label in ("wrong_class_link", "wrong_class_element") else None
                    if mech:
                        C["known_F19"] += 1
                    if label not in OPTIONAL_REFUSAL:
                        V.append({"kind": "invalid constructor argument accepted", "mechanism": mech, **ident})
                    # the accepted probe has linked itself to objects of the model: rebuild a clean model
                    h = Hist(case_rng(case["seed"], case.get("sys", 0), "C14"), case["tier"], spec=system_for(case, case_rng(case["seed"], case.get("sys", 0), "C14")))
                    objs = dict(h.objs); sysm = h.system
                except Exception:
                    C["refused"] += 1
                continue
            obs0 = observe.full_state(sysm, identity=True)
            try:
                if case["ctx"] == "assignment":
                    C["assignments_tried"] += 1
                    if isinstance(bad, ListOp):
                        C["list_operations_tried"] += 1
                        bad.run(objs[target], pname)
                    else:
                        setattr(objs[target], pname, bad)
                else:
                    C["grouped_tried"] += 1
                    # a valid change first (it must not stick either), then the invalid one
                    other = next(n for n, o in h.spec["objects"].items() if o["cls"] == "Device")
                    valid = [objs[other].power, E.SourceValue(objs[other].power.value * 1.37)]
                    if (other, "power") == (target, pname):
                        valid = [objs[other].lifespan, E.SourceValue(objs[other].lifespan.value * 1.37)]
                    if case["ctx"] == "dated":
                        # the same multi-change update as a dated what-if (first modelled hour)
                        from .. import sim
                        E.ModelingUpdate([valid, [getattr(objs[target], pname), bad]], sim.pick_date(rnd, objs, h.spec, "first"))
                    else:
                        E.ModelingUpdate([valid, [getattr(objs[target], pname), bad]])
                raised = False
            except Exception as e:
                raised = True
                C["refused"] += 1
                C["owned_value_refused"] += int(label in OPTIONAL_REFUSAL)
            C["state_comparisons"] += 1
            obs1 = observe.full_state(sysm, identity=True)
            d = observe.state_diff(obs0, obs1)
            if isinstance(bad, ListOp):
                # every list operation, refused or not, starts by handing the attribute over to a new list object (the library never
                # keeps a list object across operations): content, container and everything else must be unchanged, its identity is not claimed
                d = [k for k in d if not (obs0.get(k) and obs1.get(k) and obs0[k][0] == "list" and obs0[k][2:] == obs1[k][2:])]
            if not raised and label in OPTIONAL_REFUSAL:
                C["optional_refusal_accepted"] += 1
            elif not raised:
                V.append({"kind": "invalid value accepted", **ident})
            elif d:
                V.append({"kind": "a refused value changed the model", "n_slots": len(d), "slots": observe.explain_state_diff(obs0, obs1, d), **ident})
            if not raised or d:
                h = Hist(case_rng(case["seed"], case.get("sys", 0), "C14"), case["tier"], spec=system_for(case, case_rng(case["seed"], case.get("sys", 0), "C14")))
                objs = dict(h.objs); sysm = h.system
    return {"counters": C, "classes": sorted(classes), "violations": V[:8], "nontrivial": True,
            "digest": hashlib.md5(repr((case["cls"], case["ctx"], case.get("sys", 0))).encode()).hexdigest()[:16],
            "sample": {"class": case["cls"], "context": case["ctx"], "enumerated": done[:12]} if case["idx"] % 9 == 0 else None}


def witness(fid):
    if fid != "F19":
        return None
    E = env.load()
    try:
        E.UsageJourneyStep("probe", E.SourceValue(1 * E.u.min), jobs=[E.Network.wifi_network()])
        return True
    except Exception:
        return False


def extra_evidence(recs, cases_):
    n = 0
    for r in recs:
        c = (r.get("result") or {}).get("counters") or {}
        n += c.get("constructions_tried", 0) + c.get("assignments_tried", 0) + c.get("grouped_tried", 0)
    return {"enumerated_invalid_inputs": n, "space": "18 classes x all constructor parameters x invalid kinds x 4 contexts"}
