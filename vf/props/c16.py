"""C16 — links between objects stay consistent under every kind of edit (invariant after every operation + list model)."""
import copy, hashlib
from .. import env, gen, edits, observe, sim
from ..history import Hist, case_rng
from ..spec import build, prune, reachable, names_of, val
from .. import spec as SP

ID = "C16"
LEVEL = "exploration"
RULE = ("case = generated system (plus a second, independent system for cross-link attempts) + a sequence of 10 (quick) / 16 (thorough) "
        "operations drawn from: every list mutator (append, insert, extend, +=, *=, pop, remove by wrapper and by object, del item, del "
        "slice, item assignment, clear) with present / absent / duplicate / out-of-range / no-op arguments, link and list assignments "
        "(incl. assigning the live list held by another object), edits built to fail and be rolled back, simulations, self_delete of "
        "referenced objects, cross-system link attempts. After EVERY operation (returned or raised) the monitor recomputes the forward "
        "links from the objects' own attributes and compares them with modeling_obj_containers and the derived look-ups, checks that every "
        "list attribute is attached, that list contents equal a plain Python list replayed with the same operation, and that no object "
        "belongs to two systems. distinct = digest of the operation sequence; non-trivial = >= 3 operations changed a link")
BUDGET = {"quick": 260, "thorough": 1800}
N = {"quick": 150, "thorough": 2500}
OPS = {"quick": 10, "thorough": 16}


def cases(tier, seed):
    return [{"seed": seed, "idx": i, "tier": tier, "n_ops": OPS[tier]} for i in range(N[tier])]


def requirements(tier):
    k = 1 if tier == "quick" else 15
    need = {"invariant_evaluations": 1200 * k, "list_operations": 500 * k, "noop_list_operations": 60 * k, "python_list_would_raise": 40 * k,
            "link_assignments": 150 * k, "cross_system_attempts": 60 * k, "self_delete_attempts": 60 * k, "rolled_back_operations": 60 * k,
            "after_simulation": 40 * k, "reverse_links_compared": 30000 * k}
    return {"min_counters": need,
            "required_classes": ["mut_append", "mut_insert", "mut_extend", "mut_iadd", "mut_imul", "mut_pop", "mut_remove", "mut_remove_wrapper",
                                 "mut_delitem", "mut_delslice", "mut_setitem", "mut_clear", "assign_live_list_of_other_object",
                                 "grouped_links_to_same_target", "cross_new_system"]}


def forward_links(E, objs):
    """{referenced name: set(referencing names)} recomputed from the objects' own attributes"""
    ref = {n: set() for n in objs}
    byid = {id(getattr(o, "_value", o)): n for n, o in objs.items()}
    detached_lists = []
    for n, o in objs.items():
        for k, v in o.__dict__.items():
            if isinstance(v, E.ContextualModelingObjectAttribute):
                t = byid.get(id(v._value))
                if t is not None:
                    ref[t].add(n)
            elif isinstance(v, E.ListLinkedToModelingObj):
                if v.modeling_obj_container is None or getattr(v.modeling_obj_container, "_value", v.modeling_obj_container) is not o:
                    detached_lists.append((n, k))
                for x in v:
                    t = byid.get(id(getattr(x, "_value", x)))
                    if t is not None:
                        ref[t].add(n)
    return ref, detached_lists


def names(xs):
    return sorted(x.name for x in xs)


def invariant(E, objs, specs, V, C, ctx):
    """specs: list of specs (one per system) describing the expected list contents and links"""
    C["invariant_evaluations"] += 1
    ref, detached = forward_links(E, objs)
    for n, k in detached:
        V.append({"kind": "list attribute held by an object is not attached to it (detached live list)", "object": n, "attribute": k, **ctx})
    for n, o in objs.items():
        C["reverse_links_compared"] += 1
        got = set(names(o.modeling_obj_containers))
        if got != ref[n]:
            V.append({"kind": "reverse look-up disagrees with forward links", "object": n, "reported_containers": sorted(got),
                      "objects_really_referencing_it": sorted(ref[n]), **ctx})
            if len(V) > 4:
                return
    # contents and links equal the harness' record
    for spec in specs:
        for n, o in spec["objects"].items():
            if n not in objs:
                continue
            for p, vs in o["params"].items():
                if vs[0] == "refs":
                    live = [x.name for x in getattr(objs[n], p)]
                    if live != list(vs[1]):
                        V.append({"kind": "list content differs from a Python list given the same operations", "object": n, "attribute": p,
                                  "live": live, "python_list": list(vs[1]), **ctx})
                elif vs[0] == "ref":
                    live = getattr(objs[n], p).name
                    if live != vs[1]:
                        V.append({"kind": "link differs from the last accepted assignment", "object": n, "attribute": p, "live": live, "expected": vs[1], **ctx})
    # derived look-ups and system membership
    sys_of = {}
    for spec in specs:
        for n in reachable(spec):
            if n != spec["system"]:
                sys_of.setdefault(n, set()).add(spec["system"])
    for n, o in objs.items():
        if isinstance(getattr(o, "_value", o), E.System):
            continue
        try:
            s = set(names(o.systems))
        except Exception as e:
            V.append({"kind": f"systems look-up raised {type(e).__name__}: {str(e)[:100]}", "object": n, **ctx}); continue
        if len(s) > 1:
            V.append({"kind": "object belongs to two systems", "object": n, "systems": sorted(s), **ctx})
        if s != sys_of.get(n, set()):
            V.append({"kind": "systems look-up disagrees with forward navigation from the systems", "object": n, "reported": sorted(s),
                      "expected": sorted(sys_of.get(n, set())), **ctx})
    for spec in specs:
        O = spec["objects"]
        for n, o in O.items():
            if n not in objs:
                continue
            cls = o["cls"]
            if cls in SP.SERVER_CLS:
                exp = sorted(j for j, jo in O.items() if jo["cls"] in SP.JOB_CLS and gen.server_of_job(spec, j) == n)
                if names(objs[n].jobs) != exp:
                    V.append({"kind": "server.jobs disagrees with the jobs whose server it is", "object": n, "reported": names(objs[n].jobs), "expected": exp, **ctx})
            elif cls == "UsageJourney":
                exp = sorted(u for u, uo in O.items() if uo["cls"] == "UsagePattern" and uo["params"]["usage_journey"][1] == n)
                if names(objs[n].usage_patterns) != exp:
                    V.append({"kind": "journey.usage_patterns disagrees with forward links", "object": n, "reported": names(objs[n].usage_patterns), "expected": exp, **ctx})
            elif cls == "Network":
                exp = sorted(u for u, uo in O.items() if uo["cls"] == "UsagePattern" and uo["params"]["network"][1] == n)
                if names(objs[n].usage_patterns) != exp:
                    V.append({"kind": "network.usage_patterns disagrees with forward links", "object": n, "reported": names(objs[n].usage_patterns), "expected": exp, **ctx})
            elif cls in SP.JOB_CLS:
                exp = sorted(u for u, uo in O.items() if uo["cls"] == "UsagePattern" and n in gen.jobs_of_up(spec, u))
                if names(objs[n].usage_patterns) != exp:
                    V.append({"kind": "job.usage_patterns disagrees with forward navigation", "object": n, "reported": names(objs[n].usage_patterns), "expected": exp, **ctx})
            elif cls == "UsagePattern":
                exp = sorted(set(gen.jobs_of_up(spec, n)))
                if sorted(set(x.name for x in objs[n].jobs)) != exp:
                    V.append({"kind": "pattern.jobs disagrees with forward navigation", "object": n, "reported": names(objs[n].jobs), "expected": exp, **ctx})


def py_list_op(cur, method, args):
    """apply to a copy of a plain python list; returns (new list, raised?)"""
    l = list(cur)
    try:
        edits.list_op(l, method, args)
        return l, False
    except Exception:
        return list(cur), True


def hostile_list_op(rnd, spec):
    """list operations with absent / out-of-range arguments: what a Python list refuses must be refused and change nothing"""
    O = spec["objects"]
    cls = rnd.choice(["UsageJourney", "UsageJourneyStep"])
    objs = names_of(spec, cls)
    if not objs:
        return None
    n = rnd.choice(objs); attr, ecls = edits.LIST_ATTRS[cls]
    cur = O[n]["params"][attr][1]
    pool = names_of(spec, ecls)
    absent = [x for x in pool if x not in cur]
    k = rnd.choice(["pop_empty_or_oor", "remove_absent", "del_oor", "setitem_oor", "insert_far"])
    if k == "pop_empty_or_oor": return {"op": "list", "obj": n, "attr": attr, "method": "pop", "args": [len(cur) + 3]}
    if k == "remove_absent" and absent: return {"op": "list", "obj": n, "attr": attr, "method": "remove", "args": [rnd.choice(absent)]}
    if k == "del_oor": return {"op": "list", "obj": n, "attr": attr, "method": "delitem", "args": [len(cur) + 2]}
    if k == "setitem_oor" and pool: return {"op": "list", "obj": n, "attr": attr, "method": "setitem", "args": [len(cur) + 1, rnd.choice(pool)]}
    if k == "insert_far" and pool and cls == "UsageJourneyStep": return {"op": "list", "obj": n, "attr": attr, "method": "insert", "args": [len(cur) + 5, rnd.choice(pool)]}
    return None


def edited_inside(h, e):
    """the edited object(s) belong to the system (objects outside it are not computed by the fresh build the oracle relies on)"""
    inside = reachable(h.spec)
    objs_ = [c["obj"] for c in e["changes"]] if e["op"] == "group" else [e.get("obj")]
    return all(o in inside for o in objs_ if o is not None)


def run_case(case):
    E = env.load()
    rnd = case_rng(case["seed"], case["idx"], "C16")
    h = Hist(rnd, case["tier"], max_len=24)
    C = {k: 0 for k in ("invariant_evaluations", "list_operations", "noop_list_operations", "python_list_would_raise", "link_assignments",
                        "cross_system_attempts", "self_delete_attempts", "rolled_back_operations", "after_simulation", "reverse_links_compared",
                        "operations", "link_changing_operations", "refused_valid_looking", "build_failed", "raised_on_objects_outside_the_system")}
    classes = set()
    if h.build_error:
        C["build_failed"] = 1
        return {"counters": C, "classes": [], "violations": []}
    # a second, independent system (objects renamed) for cross-system attempts
    spec_b = gen.base_spec()
    spec_b = {"objects": {"B_" + n: {"cls": o["cls"], "params": {p: (["ref", "B_" + v[1]] if v[0] == "ref" else ["refs", ["B_" + x for x in v[1]]] if v[0] == "refs" else v)
                                                                 for p, v in o["params"].items()}} for n, o in spec_b["objects"].items()}, "system": "B_system"}
    objs_b = build(spec_b)
    allobjs = dict(h.objs); allobjs.update(objs_b)
    V, seq = [], []
    invariant(E, allobjs, [h.spec, spec_b], V, C, {"when": "after build"})
    for k in range(case["n_ops"]):
        if V:
            break
        r = rnd.random()
        ctx = {"history": h.log[-6:]}
        if r < 0.45:
            e = edits.list_mut_edit(rnd, h.spec) if rnd.random() < 0.85 else hostile_list_op(rnd, h.spec)
            if e is None or not edits.admissible(e, h.spec):
                continue
            C["list_operations"] += 1; classes.add("mut_" + e["method"])
            cur = h.spec["objects"][e["obj"]]["params"][e["attr"]][1]
            new, would_raise = py_list_op(cur, e["method"], e["args"])
            if new == cur and not would_raise:
                C["noop_list_operations"] += 1
            C["python_list_would_raise"] += int(would_raise)
            spec_after = h.spec_after(e) if not would_raise else None
            ref_ok = True
            if spec_after is not None:
                ref, err = h.reference(spec_after)
                ref_ok = ref is not None
            exc = h.apply(e, spec_after)
            seq.append(edits.describe(e))
            if would_raise and exc is None:
                V.append({"kind": "list operation that a Python list refuses was accepted", "operation": edits.describe(e), **ctx})
            elif not would_raise and exc is not None:
                if ref_ok and not edited_inside(h, e):
                    C["raised_on_objects_outside_the_system"] += 1      # the fresh build does not compute them: legitimacy undecided
                elif ref_ok:
                    V.append({"kind": "list operation raised although a Python list accepts it and the resulting model is valid",
                              "operation": edits.describe(e), "error": f"{type(exc).__name__}: {str(exc)[:160]}", **ctx})
                else:
                    C["rolled_back_operations"] += 1
            if exc is None and new != cur:
                C["link_changing_operations"] += 1
        elif r < 0.50:
            # the system's own list of usage patterns (a pattern leaves only if it shares nothing computed with the others)
            sysn = h.spec["system"]; cur = h.spec["objects"][sysn]["params"]["usage_patterns"][1]
            outside = [u for u in names_of(h.spec, "UsagePattern") if u not in cur]
            e = None
            if outside and rnd.random() < 0.6:
                u = rnd.choice(outside)
                m = rnd.choice(["append", "insert", "iadd", "extend"])
                e = {"op": "list", "obj": sysn, "attr": "usage_patterns", "method": m,
                     "args": {"append": [u], "insert": [rnd.randint(0, len(cur)), u], "iadd": [[u]], "extend": [[u]]}[m]}
            else:
                rem = [u for u in cur if len(cur) > 1 and edits.can_remove_up(h.spec, u, [x for x in cur if x != u])]
                if rem:
                    u = rnd.choice(rem)
                    m = rnd.choice(["remove", "remove_wrapper", "pop", "delitem"])
                    e = {"op": "list", "obj": sysn, "attr": "usage_patterns", "method": m, "args": [u] if m.startswith("remove") else [cur.index(u)]}
            if e is None:
                continue
            C["list_operations"] += 1; C["system_list_operations"] = C.get("system_list_operations", 0) + 1; classes.add("mut_" + e["method"])
            spec_after = h.spec_after(e)
            ref, err = h.reference(spec_after)
            exc = h.apply(e, spec_after)
            seq.append(edits.describe(e))
            if exc is not None and ref is not None:
                V.append({"kind": "list operation on system.usage_patterns raised although the resulting model is valid", "operation": edits.describe(e),
                          "error": f"{type(exc).__name__}: {str(exc)[:160]}", **ctx})
            elif exc is None:
                C["link_changing_operations"] += 1
        elif r < 0.62:
            e = rnd.choice([edits.link_edit, edits.list_assign_edit, edits.same_target_group_edit])(rnd, h.spec)
            if e is None:
                continue
            C["link_assignments"] += 1
            if e["op"] == "group":
                classes.add("grouped_links_to_same_target")
            spec_after = h.spec_after(e)
            ref, err = h.reference(spec_after)
            exc = h.apply(e, spec_after)
            seq.append(edits.describe(e))
            if exc is not None and ref is not None and not edited_inside(h, e):
                C["raised_on_objects_outside_the_system"] += 1
            elif exc is not None and ref is not None:
                V.append({"kind": "link assignment raised although the resulting model is valid", "operation": edits.describe(e),
                          "error": f"{type(exc).__name__}: {str(exc)[:160]}", **ctx})
            elif exc is None:
                C["link_changing_operations"] += 1
        elif r < 0.68:
            # assign the live list held by another object (must behave like assigning a copy of it)
            cls = rnd.choice(["UsageJourney", "UsageJourneyStep"])
            cands = names_of(h.spec, cls)
            if len(cands) < 2:
                continue
            a, b = rnd.sample(cands, 2)
            attr = edits.LIST_ATTRS[cls][0]
            classes.add("assign_live_list_of_other_object")
            e = {"op": "set", "obj": a, "attr": attr, "value": ["refs", list(h.spec["objects"][b]["params"][attr][1])]}
            if not edits.admissible(e, h.spec):
                continue
            spec_after = h.spec_after(e)
            ref, err = h.reference(spec_after)
            try:
                setattr(h.objs[a], attr, getattr(h.objs[b], attr))
                h.spec = spec_after; h.log.append({"edit": f"{a}.{attr} = {b}.{attr} (the live list)", "result": "ok"})
            except Exception as exc:
                h.log.append({"edit": f"{a}.{attr} = {b}.{attr} (the live list)", "result": f"raised {type(exc).__name__}"})
                if ref is not None and not edited_inside(h, e):
                    C["raised_on_objects_outside_the_system"] += 1
                elif ref is not None:
                    V.append({"kind": "assigning the list held by another object raised although the resulting model is valid",
                              "operation": f"{a}.{attr} = {b}.{attr}", "error": f"{type(exc).__name__}: {str(exc)[:160]}", **ctx})
            seq.append(f"{a}.{attr}={b}.{attr}")
        elif r < 0.76:
            C["cross_system_attempts"] += 1
            kind = rnd.choice(["job.server", "system.append", "up.uj", "step.jobs", "up.network", "indirect_share", "indirect_share"])
            inA = reachable(h.spec)       # only objects that belong to system A: linking an orphan to B is legitimate
            pick = lambda cls: [n for n in names_of(h.spec, cls) if n in inA]
            if (kind == "job.server" and not pick("Job")) or (kind == "step.jobs" and not pick("UsageJourneyStep")):
                kind = "system.append"
            try:
                if kind == "indirect_share":
                    # a free usage pattern (in no system) that reuses a device / the country / a job-less step of system A joins system B:
                    # the shared object would belong to two systems although no link to A or B is assigned directly
                    k_ = len([x for x in allobjs if x.startswith("X_")])
                    a_up = rnd.choice(pick("UsagePattern"))
                    shared_dev = h.objs[h.spec["objects"][a_up]["params"]["devices"][1][0]]
                    shared_cty = h.objs[h.spec["objects"][a_up]["params"]["country"][1]]
                    st_ = E.UsageJourneyStep(f"X_s{k_}", E.SourceValue(2 * E.u.min), [])
                    uj_ = E.UsageJourney(f"X_uj{k_}", [st_])
                    nw_ = E.Network(f"X_n{k_}", E.SourceValue(0.07 * E.u("kWh/GB")))
                    variant = rnd.choice(["device", "country"])
                    dv_ = shared_dev if variant == "device" else E.Device.laptop(f"X_d{k_}")
                    ct_ = shared_cty if variant == "country" else objs_b["B_c1"]
                    up_ = E.UsagePattern(f"X_up{k_}", uj_, [dv_], nw_, ct_, E.create_source_hourly_values_from_list([3, 1, 4], __import__("datetime").datetime(2025, 1, 1)))
                    for o_ in (st_, uj_, nw_, up_) + ((dv_,) if variant != "device" else ()):
                        allobjs[o_.name] = o_
                    m_ = rnd.choice(["append", "iadd", "assign", "new_system", "new_system"])
                    bs = objs_b["B_system"]
                    classes.add("cross_" + m_)
                    if m_ == "append": bs.usage_patterns.append(up_)
                    elif m_ == "iadd": bs.usage_patterns += [up_]
                    elif m_ == "new_system": E.System(f"X_sys{k_}", [up_])     # a third system built around the free pattern
                    else: bs.usage_patterns = list(bs.usage_patterns) + [up_]
                elif kind == "job.server":
                    j = rnd.choice(pick("Job")); h.objs[j].server = objs_b["B_srv1"]
                elif kind == "system.append":
                    h.system.usage_patterns.append(objs_b["B_up1"])
                elif kind == "up.uj":
                    h.objs[rnd.choice(pick("UsagePattern"))].usage_journey = objs_b["B_uj1"]
                elif kind == "step.jobs":
                    st = rnd.choice(pick("UsageJourneyStep")); h.objs[st].jobs += [objs_b["B_j2"]]
                else:
                    h.objs[rnd.choice(pick("UsagePattern"))].network = objs_b["B_n1"]
                accepted = True
            except Exception as exc:
                accepted = False
                C["rolled_back_operations"] += 1
            h.log.append({"edit": f"cross-system {kind}", "result": "accepted" if accepted else "refused"})
            seq.append("cross:" + kind)
            # whether accepted or not is decided by the invariant below: no object may end up in two systems (an attempt on an object
            # that belongs to no system is legitimately accepted and then fails the record comparison only if links changed)
            if accepted:
                # re-read what the edit did into the record is impossible (objects of B are not in spec A): an accepted cross link on an
                # object that is in system A is a violation by itself
                V.append({"kind": "an edit linking an object of another system was accepted", "attempt": kind, **ctx})
        elif r < 0.84:
            C["self_delete_attempts"] += 1
            ref, _ = forward_links(E, allobjs)
            referenced = [n for n in h.objs if ref[n] and not isinstance(h.objs[n], E.System)]
            if referenced:
                n = rnd.choice(referenced)
                try:
                    h.objs[n].self_delete()
                    V.append({"kind": "self_delete() of an object that is still referenced was accepted", "object": n, "referenced_by": sorted(ref[n]), **ctx})
                except PermissionError:
                    pass
                except Exception as exc:
                    V.append({"kind": f"self_delete() of a referenced object raised {type(exc).__name__} instead of refusing cleanly", "object": n,
                              "error": str(exc)[:160], **ctx})
                seq.append("self_delete:" + n)
        elif r < 0.93:
            e = edits.risky_edit(rnd, h.spec, h.objs)
            if e is None:
                continue
            exc = h.apply(e)
            seq.append(edits.describe(e))
            if exc is not None:
                C["rolled_back_operations"] += 1
        else:
            try:
                changes = sim.rand_change_list(rnd, h.spec, h.objs, failing=rnd.choice([None, None, "allowed", "recompute"]))
                m = E.ModelingUpdate(sim.to_library_changes(changes, h.objs), sim.pick_date(rnd, h.objs, h.spec, rnd.choice(["first", "interior"])))
                m.set_updated_values(); m.reset_values()
            except Exception:
                pass
            C["after_simulation"] += 1
            seq.append("simulation")
        C["operations"] += 1
        if not V:
            invariant(E, allobjs, [h.spec, spec_b], V, C, dict(ctx, when="after " + seq[-1] if seq else "?"))
    return {"counters": C, "classes": sorted(classes), "violations": V[:4], "nontrivial": C["link_changing_operations"] >= 3,
            "digest": hashlib.md5(repr(seq).encode()).hexdigest()[:16], "sample": {"operations": seq} if case["idx"] < 3 else None}
