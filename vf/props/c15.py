"""C15 — a failed recomputation can always be recovered from (fault sequences over histories, rebuild oracle afterwards)."""
import copy, hashlib
from .. import env, gen, edits, observe
from ..history import Hist, case_rng
from .c01 import f3_mechanism

ID = "C15"
LEVEL = "fault_enumeration"
RULE = ("case = generated system + history mixing ordinary edits with edits built to make recomputation fail at every raising update "
        "function with REAL triggers (base RAM / compute above capacity, utilisation making capacity negative, RAM shrunk below base "
        "consumption, on-premise or storage instance count fixed at the need then traffic raised, deleting job driving the ledger "
        "negative, zero request duration failing in the middle of a per-pattern dict update), single or grouped, repeated up to 3 "
        "times in a row. After each raise the full observation (values, links, id-level graph) must equal the pre-failure one, also "
        "after re-assigning the previous value; afterwards >= 3 edits biased to the inputs involved are checked against a rebuild from "
        "the spec. distinct = digest(failing edits, sites); non-trivial = >= 1 edit raised during recomputation (after changes were applied)")
BUDGET = {"quick": 280, "thorough": 2000}
PER_CASE_TIMEOUT = {"quick": 150, "thorough": 300}
N = {"quick": 140, "thorough": 2500}


def cases(tier, seed):
    return [{"seed": seed, "idx": i, "tier": tier, "n_steps": 9 if tier == "quick" else 14} for i in range(N[tier])]


def requirements(tier):
    k = 1 if tier == "quick" else 15
    return {"min_counters": {"failed_edits": 150 * k, "state_restored_checks": 300 * k, "rebuild_comparisons_after_failure": 250 * k,
                             "repeated_failures": 30 * k, "grouped_failures": 15 * k},
            "required_classes": ["site_capacity", "site_fixed_count", "site_negative_storage", "site_zero_duration", "job_shared_by_2_patterns"]}


def site_of(exc):
    m = str(exc)
    if "has available capacity of" in m: return "site_capacity"
    if "is superior to the number of instances specified" in m or "superior to the" in m: return "site_fixed_count"
    if "negative cumulative storage" in m: return "site_negative_storage"
    if isinstance(exc, ZeroDivisionError): return "site_zero_duration"
    return "site_other_" + type(exc).__name__


def run_case(case):
    E = env.load()
    rnd = case_rng(case["seed"], case["idx"], "C15")
    spec0 = None
    if case["idx"] % 8 == 5:
        from .c17 import builder_spec
        spec0 = builder_spec(rnd)
    h = Hist(rnd, case["tier"], spec=spec0, max_len=50)
    C = {k: 0 for k in ("failed_edits", "state_restored_checks", "rebuild_comparisons_after_failure", "repeated_failures", "grouped_failures",
                        "risky_edits_accepted", "boundary_skipped", "build_failed", "ordinary_edits")}
    classes = set(gen.topo_classes(h.spec)) | ({"builder_model"} if spec0 is not None else set())
    if h.build_error:
        C["build_failed"] = 1
        return {"counters": C, "classes": sorted(classes), "violations": []}
    sysm = h.system
    V, fails = [], []
    since_failure = None
    involved = []
    streak = 0
    directed_fail = None
    if case["idx"] % 7 == 2 and spec0 is None:
        # a storage that lives on its initial need (one of its jobs deletes data): the failing edit lowers that need alone, so that
        # the hourly deltas it is compared with are NOT among the recomputed values
        js = [n for n, o in h.spec["objects"].items() if o["cls"] == "Job" and n in h.objs and h.spec["objects"][n]["params"]["server"][1] in h.spec["objects"]]
        if js:
            j = rnd.choice(js)
            st = h.spec["objects"][h.spec["objects"][j]["params"]["server"][1]]["params"]["storage"][1]
            ok = h.apply({"op": "set", "obj": st, "attr": "base_storage_need", "value": ["q", rnd.choice([50.37, 500.37]), "TB"], "kind": "num"}) is None \
                and h.apply({"op": "set", "obj": j, "attr": "data_stored", "value": ["q", -rnd.choice([137, 2371]), "kB"], "kind": "num"}) is None
            if ok:
                directed_fail = {"op": "set", "obj": st, "attr": "base_storage_need", "value": ["q", 0, "TB"], "kind": "risky_base_storage_short"}
                classes.add("directed_initial_need_lowered_under_a_deleting_job")
    for k in range(case["n_steps"]):
        if V:
            break
        if rnd.random() < 0.12:
            # a dated what-if whose recomputation fails is a failed edit too: afterwards the model must behave as a fresh one
            from .. import sim
            try:
                changes = sim.rand_change_list(rnd, h.spec, h.objs, failing="recompute")
                date = sim.pick_date(rnd, h.objs, h.spec, rnd.choice(["first", "interior"]))
                obs0 = observe.full_state(sysm, identity=False)
                try:
                    m = E.ModelingUpdate(sim.to_library_changes(changes, h.objs), date)
                    h.log.append({"edit": "simulation " + str(sim.describe_changes(changes)), "result": "returned"})
                except Exception as exc:
                    C["failed_simulations"] = C.get("failed_simulations", 0) + 1
                    h.log.append({"edit": "simulation " + str(sim.describe_changes(changes)), "result": f"raised {type(exc).__name__}"})
                    since_failure = 0
                    involved = [(c["obj"], c["attr"]) for c in changes if c["value"][0] == "q"]
                    for c in changes:
                        if c["value"][0] == "ref":
                            tgt = c["value"][1]
                            involved += [(tgt, a) for a in edits.NUM.get(h.spec["objects"][tgt]["cls"], [])[:6]]
                            involved += [(c["obj"], a) for a in edits.NUM.get(h.spec["objects"][c["obj"]]["cls"], [])[:5]]
                C["state_restored_checks"] += 1
                obs1 = observe.full_state(sysm, identity=False)
                d = observe.state_diff(obs0, obs1)
                if d:
                    V.append({"kind": "baseline not restored after a what-if simulation", "n_slots": len(d), "slots": observe.explain_state_diff(obs0, obs1, d),
                              "history": h.log[-6:]})
            except Exception:
                pass
            continue
        want_fail = rnd.random() < 0.45 or (streak and streak < 3 and rnd.random() < 0.5)
        if directed_fail is not None and k >= 1:
            want_fail, e, directed_fail = True, directed_fail, None
        elif want_fail:
            e = edits.risky_edit(rnd, h.spec, h.objs)
            if e is not None and e["op"] == "set" and rnd.random() < 0.2:
                extra = edits.num_edit(rnd, h.spec)
                if (extra["obj"], extra["attr"]) != (e["obj"], e["attr"]):
                    e = {"op": "group", "kind": e["kind"] + "_grouped", "changes": [{"obj": extra["obj"], "attr": extra["attr"], "value": extra["value"]},
                                                                                  {"obj": e["obj"], "attr": e["attr"], "value": e["value"]}]}
        else:
            targets = involved if (since_failure is not None and involved and rnd.random() < 0.6) else None
            e = edits.num_edit(rnd, h.spec, targets) if targets else h.propose()
            e.setdefault("kind", "num")
        if e is None:
            continue
        spec_before = h.spec
        spec_after = h.spec_after(e)
        ref, err = h.reference(spec_after)
        obs0 = observe.full_state(sysm, identity=False)
        exc = h.apply(e, spec_after)
        ctx = {"edit": edits.describe(e), "history": h.log[-8:]}
        if exc is not None:
            streak += 1
            C["failed_edits"] += 1
            if streak > 1:
                C["repeated_failures"] += 1
            if e["op"] == "group":
                C["grouped_failures"] += 1
            classes.add(site_of(exc)); fails.append((e.get("kind"), site_of(exc)))
            ctx["raised"] = f"{type(exc).__name__}: {str(exc)[:120]}"
            # 1. state right after the raise
            C["state_restored_checks"] += 1
            obs1 = observe.full_state(sysm, identity=False)
            d = observe.state_diff(obs0, obs1)
            # 2. re-assign the previous value(s) (equal new objects), as a user would to recover
            if e["op"] == "group":
                chs = e["changes"]
            elif e["op"] == "fresh_storage":
                chs = [{"obj": e["obj"], "attr": "storage"}]
            elif e["op"] == "delete_pattern":
                chs = [{"obj": h.spec["system"], "attr": "usage_patterns"}]
            elif e["op"] == "simulate":
                chs = []
            else:
                chs = [e]
            try:
                for c in chs:
                    edits.apply_live({"op": "set", "obj": c["obj"], "attr": c["attr"], "value": spec_before["objects"][c["obj"]]["params"].get(c["attr"], ["none"])}, h.objs)
            except Exception as e2:
                V.append({"kind": "re-assigning the previous value after a failed edit raised", "error": f"{type(e2).__name__}: {str(e2)[:160]}", **ctx}); break
            C["state_restored_checks"] += 1
            obs2 = observe.full_state(sysm, identity=False)
            d2 = observe.state_diff(obs0, obs2)
            if d2:
                V.append({"kind": "model not restored after a failed edit and re-assignment of the previous value", "n_slots": len(d2),
                          "slots": observe.explain_state_diff(obs0, obs2, d2), "differed_right_after_raise": len(d), **ctx}); break
            since_failure = 0
            involved = [(c["obj"], c["attr"]) for c in chs] + [(c["obj"], a) for c in chs for a in edits.NUM.get(h.spec["objects"][c["obj"]]["cls"], [])[:3]]
            continue
        streak = 0
        if want_fail:
            C["risky_edits_accepted"] += 1
        else:
            C["ordinary_edits"] += 1
        # accepted edit: rebuild oracle (C01) - after a failure this is "edits afterwards behave as on a freshly built system"
        if ref is None:
            V.append({"kind": "edit accepted although a fresh build of the resulting inputs raises", "fresh_build_error": err, **ctx}); break
        if observe.ceil_boundary_ambiguous(sysm) or observe.ceil_boundary_ambiguous(ref[h.spec["system"]]):
            C["boundary_skipped"] += 1
            continue
        s1, s2 = observe.snapshot(sysm), observe.snapshot(ref[h.spec["system"]])
        dd = observe.diff(s1, s2)
        if since_failure is not None:
            C["rebuild_comparisons_after_failure"] += 1; since_failure += 1
        if dd:
            V.append({"kind": "after a recovered failure an edit does not behave as on a freshly built system" if since_failure is not None
                      else "stale values after an edit (before any failure)", "n_slots": len(dd), "slots": observe.explain_diff(s1, s2, dd),
                      "mechanism": f3_mechanism(spec_before, spec_after, dd), **ctx})
    dg = hashlib.md5(repr(fails).encode() + observe.digest(observe.snapshot(sysm)).encode()).hexdigest()[:16]
    return {"counters": C, "classes": sorted(classes), "violations": V[:3], "nontrivial": C["failed_edits"] > 0, "digest": dg,
            "sample": {"failures": fails, "history": h.log[-10:]} if case["idx"] < 3 else None}


def witness(fid):
    from .c01 import witness as w
    return w(fid)
