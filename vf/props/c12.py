"""C12 — footprints respond to each driver in the documented proportion (metamorphic differential with a factor table)."""
import copy, hashlib
import numpy as np
from .. import env, gen, edits, observe
from .. import spec as SP
from ..history import Hist, case_rng
from ..spec import reachable, names_of, val
from ..series import S, mismatch, scale, add, total, maxabs

ID = "C12"
LEVEL = "exploration"
RULE = ("case = (generated sharing-heavy system, one driver object). Each cost driver of the object (PUE, server carbon intensity, bandwidth "
        "intensity, data transferred, country intensity, device power / fabrication footprint / lifespan / usage fraction, server and "
        "storage unit fabrication footprint and lifespan) is multiplied by k in {0.5, 2, 3.7}, and all traffic by k in one grouped "
        "update; who drives what is derived from the harness' own record of the links. For every energy / fabrication footprint slot: "
        "driven by this input alone -> x k (or 1/k) hour by hour; one of several contributors -> affine in k (checked with two "
        "factors) ; not driven -> unchanged. Checked on a rebuilt system AND after the live edit. distinct = (topology digest, driver); "
        "non-trivial = the driver changed >= 1 slot")
BUDGET = {"quick": 280, "thorough": 2400}
PER_CASE_TIMEOUT = {"quick": 200, "thorough": 500}
NSYS = {"quick": 10, "thorough": 70}
KS = [0.5, 2, 3.7]
FOOT = {"Server": ["energy_footprint", "instances_fabrication_footprint"], "Storage": ["energy_footprint", "instances_fabrication_footprint"],
        "Network": ["energy_footprint"], "UsagePattern": ["energy_footprint", "instances_fabrication_footprint"]}
DRIVERS = {"Server": ["power_usage_effectiveness", "average_carbon_intensity", "carbon_footprint_fabrication", "lifespan"],
           "Storage": ["carbon_footprint_fabrication_per_storage_capacity", "lifespan"],
           "Network": ["bandwidth_energy_intensity"], "Job": ["data_transferred"], "Country": ["average_carbon_intensity"],
           "Device": ["power", "carbon_footprint_fabrication", "lifespan", "fraction_of_usage_time"], "System": ["ALL_TRAFFIC"],
           "GPUServer": ["power_usage_effectiveness", "average_carbon_intensity", "lifespan"],
           "BoaviztaCloudServer": ["power_usage_effectiveness", "average_carbon_intensity", "lifespan"]}


def make_spec(seed, s):
    rnd = case_rng(seed, s, "C12sys")
    if s == 0:
        # one fixed sharing-heavy model guarantees the classes the factor table distinguishes: a network shared by patterns of two
        # countries, a device shared by two patterns, a storage with idle power, a serverless server
        sp = gen.base_spec()
        O = sp["objects"]
        O["up2"]["params"]["network"] = ["ref", "n1"]
        O["st1"]["params"]["idle_power"] = ["q", 0.1, "W"]; O["st2"]["params"]["idle_power"] = ["q", 0.1, "W"]
        O["srv1"]["params"]["server_type"] = ["s", "serverless"]
        O["c1"]["rename"] = "France"; O["c2"]["rename"] = "France"      # two distinct Country objects with the same display name
        from ..spec import prune
        return prune(sp)
    if s == 1:
        from .c17 import builder_spec
        return builder_spec(rnd)          # GPU server + cloud-instance server + service jobs: the same drivers must act the same way
    return gen.rand_spec(rnd, "quick", jobless_ok=False, max_len=24)


def cases(tier, seed):
    cs = []
    for s in range(NSYS[tier]):
        spec = make_spec(seed, s)
        for n in sorted(reachable(spec)):
            if spec["objects"][n]["cls"] in DRIVERS:
                cs.append({"sys": s, "obj": n, "cls": spec["objects"][n]["cls"]})
    return [dict(c, seed=seed, idx=i, tier=tier) for i, c in enumerate(cs)]


def requirements(tier):
    k = 1 if tier == "quick" else 10
    return {"min_counters": {"driver_factor_rebuilds": 400 * k, "live_edits": 150 * k, "slots_scaled_checked": 400 * k, "slots_unchanged_checked": 4000 * k,
                             "slots_affine_checked": 60 * k, "all_traffic_grouped_updates": 12 * k},
            "required_classes": ["drv_power_usage_effectiveness", "drv_bandwidth_energy_intensity", "drv_data_transferred", "drv_ALL_TRAFFIC",
                                 "drv_fraction_of_usage_time", "shared_network_mixed_countries", "serverless_scaled_with_traffic",
                                 "storage_with_idle_power"]}


def expectations(spec, n, p):
    """{(object, attr): ('scale', exponent) | ('affine', exponent)} for slots driven by (n, p); everything else must be unchanged"""
    O = spec["objects"]
    names = reachable(spec)
    ups = [u for u in names if O[u]["cls"] == "UsagePattern"]
    out = {}
    cls = O[n]["cls"]
    if cls in SP.SERVER_CLS:
        if p in ("power_usage_effectiveness", "average_carbon_intensity"):
            out[(n, "energy_footprint")] = ("scale", 1)
            out[(O[n]["params"]["storage"][1], "energy_footprint")] = ("scale", 1)
        elif p == "carbon_footprint_fabrication":
            out[(n, "instances_fabrication_footprint")] = ("scale", 1)
        elif p == "lifespan":
            out[(n, "instances_fabrication_footprint")] = ("scale", -1)
    elif cls == "Storage":
        out[(n, "instances_fabrication_footprint")] = ("scale", 1 if p != "lifespan" else -1)
    elif cls == "Network":
        out[(n, "energy_footprint")] = ("scale", 1)
    elif cls in SP.JOB_CLS:
        for net in {O[u]["params"]["network"][1] for u in ups if n in gen.jobs_of_up(spec, u)}:
            contributors = {j for u in ups if O[u]["params"]["network"][1] == net for j in gen.jobs_of_up(spec, u)
                            if O[j]["params"].get("data_transferred", ["q", 1])[1] != 0}
            out[(net, "energy_footprint")] = ("scale", 1) if contributors <= {n} else ("affine", 1)
    elif cls == "Country":
        mine = [u for u in ups if O[u]["params"]["country"][1] == n]
        for u in mine:
            out[(u, "energy_footprint")] = ("scale", 1)
        for net in {O[u]["params"]["network"][1] for u in mine}:
            all_mine = all(O[u]["params"]["country"][1] == n for u in ups if O[u]["params"]["network"][1] == net)
            out[(net, "energy_footprint")] = ("scale", 1) if all_mine else ("affine", 1)
    elif cls == "Device":
        attr = "energy_footprint" if p == "power" else "instances_fabrication_footprint"
        expo = -1 if p in ("lifespan", "fraction_of_usage_time") else 1
        for u in ups:
            devs = O[u]["params"]["devices"][1]
            if n in devs:
                out[(u, attr)] = ("scale", expo) if set(devs) == {n} else ("affine", expo)
    return out


def foot_slots(spec):
    O = spec["objects"]
    out = []
    for n in sorted(reachable(spec)):
        cls = "Server" if O[n]["cls"] in SP.SERVER_CLS else O[n]["cls"]
        for a in FOOT.get(cls, []):
            out.append((n, a))
    return out


def read(objs, slots):
    return {s: S(getattr(objs[s[0]], s[1])) for s in slots}


def check_relations(tag, base, got, exp, k, V, C, ident, other=None):
    """other = (k2, values at k2) for affine slots"""
    for slot, b in base.items():
        g = got[slot]
        e = exp.get(slot)
        if e is None:
            C["slots_unchanged_checked"] += 1
            mm = mismatch(g, b, rtol=1e-9)
            if mm:
                V.append({"kind": f"a footprint not driven by this input changed ({tag})", "slot": list(slot), "at": mm[0], "after": mm[1], "before": mm[2], "factor": k, **ident})
        elif e[0] == "scale":
            f = k ** e[1]
            C["slots_scaled_checked"] += 1
            mm = mismatch(g, scale(b, f), rtol=1e-9)
            if mm:
                V.append({"kind": f"a footprint driven by this input alone is not multiplied by {'k' if e[1] == 1 else '1/k'} ({tag})", "slot": list(slot),
                          "at": mm[0], "after": mm[1], "expected": mm[2], "factor": k, **ident})
            elif maxabs(b) > 0 and not any(v != 0 for v in g.values()):
                V.append({"kind": "scaled footprint vanished", "slot": list(slot), **ident})
        elif e[0] == "affine" and other is not None:
            k2, g2 = other[0], other[1][slot]
            f1, f2 = k ** e[1], k2 ** e[1]
            C["slots_affine_checked"] += 1
            lhs = scale(add(g, b, -1.0), (f2 - 1.0))
            rhs = scale(add(g2, b, -1.0), (f1 - 1.0))
            mm = mismatch(lhs, rhs, rtol=1e-9, scale_hint=1e-9 * maxabs(b, g, g2))
            if mm:
                V.append({"kind": f"a footprint with several contributors is not affine in the factor ({tag})", "slot": list(slot), "at": mm[0],
                          "factors": [k, k2], **ident})
        if len(V) > 3:
            return


def run_case(case):
    E = env.load()
    spec = make_spec(case["seed"], case["sys"])
    rnd = case_rng(case["seed"], case["idx"], "C12")
    h = Hist(rnd, case["tier"], spec=spec, id_seed=case["seed"] * 1000 + case["sys"])
    C = {k: 0 for k in ("driver_factor_rebuilds", "live_edits", "slots_scaled_checked", "slots_unchanged_checked", "slots_affine_checked",
                        "all_traffic_grouped_updates", "boundary_skipped", "refused", "build_failed", "drivers_with_effect")}
    classes = set(gen.topo_classes(h.spec))
    if h.build_error:
        return {"counters": dict(C, build_failed=1), "classes": sorted(classes), "violations": []}
    O = h.spec["objects"]
    n = case["obj"]
    if any(O[s]["params"]["idle_power"][1] > 0 for s in names_of(h.spec, "Storage")):
        classes.add("storage_with_idle_power")
    slots = foot_slots(h.spec)
    sysm = h.system
    if case["idx"] % 2 == 0:
        # a what-if that has been created, toggled and reset must leave a model that still responds to its drivers
        from .. import sim
        try:
            ch = sim.rand_change_list(rnd, h.spec, h.objs, no_hourly=True)
            m_ = E.ModelingUpdate(sim.to_library_changes(ch, h.objs), sim.pick_date(rnd, h.objs, h.spec, rnd.choice(["first", "interior"])))
            m_.set_updated_values(); m_.reset_values()
            C["after_a_finished_simulation"] = 1
        except Exception:
            pass
    base = read(h.objs, slots)
    V = []
    if observe.ceil_boundary_ambiguous(sysm):
        C["boundary_skipped"] += 1
        return {"counters": C, "classes": sorted(classes), "violations": [], "nontrivial": False}
    for p in DRIVERS[case["cls"]]:
        if V:
            break
        classes.add("drv_" + p)
        ident = {"driver": [n, p]}
        results = {}
        if p == "ALL_TRAFFIC":
            # every load-proportional quantity x k; serverless servers follow, others are only checked through their needs
            ups = [u for u in reachable(h.spec) if O[u]["cls"] == "UsagePattern"]
            for k in KS:
                e = {"op": "group", "kind": "all_traffic", "changes": [{"obj": u, "attr": "hourly_usage_journey_starts",
                     "value": ["h", [x * k for x in O[u]["params"]["hourly_usage_journey_starts"][1]], *O[u]["params"]["hourly_usage_journey_starts"][2:]]} for u in ups]}
                if len(ups) == 1:
                    e = {"op": "set", "kind": "all_traffic", **e["changes"][0]}
                s2 = h.spec_after(e)
                ref, err = h.reference(s2)
                if ref is None:
                    C["refused"] += 1; continue
                C["driver_factor_rebuilds"] += 1
                spec_before = h.spec
                base_snap = observe.snapshot(sysm)
                if h.apply(e, s2) is not None:
                    C["refused"] += 1; continue
                C["live_edits"] += 1; C["all_traffic_grouped_updates"] += 1
                for tag, objs in (("rebuild", ref), ("live", h.objs)):
                    snap = observe.snapshot(objs[h.spec["system"]])
                    for slot, b in base_snap.items():
                        name, attr = slot[0], slot[1]
                        cls = O[name]["cls"] if name in O else None
                        prop = False
                        if cls in SP.JOB_CLS and attr.startswith("hourly_"): prop = True
                        elif cls == "Network" and attr == "energy_footprint": prop = True
                        elif cls == "UsagePattern" and attr != "utc_hourly_usage_journey_starts" or (cls == "UsagePattern"): prop = True
                        elif cls in SP.SERVER_CLS and attr in ("hour_by_hour_ram_need", "hour_by_hour_compute_need", "raw_nb_of_instances"): prop = True
                        elif cls in SP.SERVER_CLS and O[name]["params"]["server_type"][1] == "serverless" and attr in (
                                "nb_of_instances", "instances_energy", "energy_footprint", "instances_fabrication_footprint"):
                            prop = True; classes.add("serverless_scaled_with_traffic")
                        if not prop or b[0] not in ("h", "empty"):
                            continue
                        C["slots_scaled_checked"] += 1
                        g = snap.get(slot)
                        mm = mismatch(S(g) if g else {}, scale(S(b), k), rtol=1e-9)
                        if mm:
                            V.append({"kind": f"a load-proportional quantity is not multiplied by k when all traffic is ({tag})", "slot": list(map(str, slot)),
                                      "at": mm[0], "after": mm[1], "expected": mm[2], "factor": k, **ident}); break
                    if V:
                        break
                # undo
                inv = edits.inverse(e, spec_before); inv["kind"] = "undo"
                h.apply(inv)
                if V:
                    break
            continue
        vs = O[n]["params"][p]
        if vs[0] != "q" or vs[1] == 0:
            continue
        exp = expectations(h.spec, n, p)
        if case["cls"] == "Country" and any(v[0] == "affine" for v in exp.values()):
            classes.add("shared_network_mixed_countries")
        for k in KS:
            s2 = copy.deepcopy(h.spec); s2["objects"][n]["params"][p] = ["q", vs[1] * k, vs[2]]
            ref, err = h.reference(s2)
            if ref is None:
                C["refused"] += 1; continue
            C["driver_factor_rebuilds"] += 1
            results[k] = read(ref, slots)
        ks = sorted(results)
        effect = False
        for i, k in enumerate(ks):
            other = (ks[(i + 1) % len(ks)], results[ks[(i + 1) % len(ks)]]) if len(ks) > 1 else None
            check_relations("rebuild", base, results[k], exp, k, V, C, ident, other)
            effect = effect or any(mismatch(results[k][s], base[s]) for s in slots)
            if V:
                break
        C["drivers_with_effect"] += int(effect)
        # live edit with one factor, then back
        if not V and ks:
            k = rnd.choice(ks)
            try:
                setattr(h.objs[n], p, val(["q", vs[1] * k, vs[2]])); C["live_edits"] += 1
                live = read(h.objs, slots)
                check_relations("live edit", base, live, exp, k, V, C, ident, (ks[0], results[ks[0]]) if ks[0] != k else ((ks[-1], results[ks[-1]]) if ks[-1] != k else None))
                setattr(h.objs[n], p, val(vs))
            except Exception as e:
                V.append({"kind": f"live scaling of a driver raised {type(e).__name__}: {str(e)[:160]}", "factor": k, **ident})
    dg = hashlib.md5(repr((case["sys"], n, sorted(classes))).encode()).hexdigest()[:16]
    return {"counters": C, "classes": sorted(classes), "violations": V[:3], "nontrivial": C["drivers_with_effect"] > 0 or C["all_traffic_grouped_updates"] > 0,
            "digest": dg, "sample": {"driver_object": n, "class": case["cls"], "drivers": DRIVERS[case["cls"]], "counters": C} if case["idx"] % 9 == 0 else None}
