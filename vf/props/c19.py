"""C19 — results are independent of creation order, identifiers and hashing (differential across builds and processes)."""
import copy, json, os, sys, pickle, random, hashlib, subprocess, tempfile, shutil
from .. import env, gen, edits, observe
from ..history import case_rng
from ..spec import build_order

ID = "C19"
LEVEL = "exploration"
RULE = ("case = batch of generated specs; every spec is built under K variants (creation order permuted within dependency constraints, "
        "order-irrelevant lists permuted: system patterns, pattern devices, jobs of a step; different identifier seeds) in each of H "
        "interpreter processes started with different PYTHONHASHSEED; half of the specs are additionally edited (same edit history in "
        "every variant; creation order / identifiers / hash seed vary). All observations of one spec must be numerically equal "
        "(cases whose ceil arguments sit on a floating-point boundary are pre-filtered). distinct = spec digest; non-trivial = the "
        "spec shares an object between patterns or lists several jobs in a step, and >= 2 hash seeds produced an observation")
BUDGET = {"quick": 280, "thorough": 2400}
PER_CASE_TIMEOUT = {"quick": 260, "thorough": 900}
SPECS_PER_CASE = {"quick": 5, "thorough": 10}
N = {"quick": 10, "thorough": 60}
K = {"quick": 4, "thorough": 6}
H = {"quick": 4, "thorough": 8}


def cases(tier, seed):
    return [{"seed": seed, "idx": i, "tier": tier} for i in range(N[tier])]


def requirements(tier):
    k = 1 if tier == "quick" else 12
    return {"min_counters": {"specs_compared": 40 * k, "observations_compared": 600 * k, "interpreter_processes": 30 * k, "specs_with_history": 15 * k,
                             "list_permutation_variants": 50 * k},
            "required_classes": ["job_shared_by_2_patterns", "network_shared", "country_shared", "several_jobs_in_a_step", "multi_timezone",
                                 "same_identifiers_twice_in_one_process"]}


def permuted_lists(spec, rnd):
    s = copy.deepcopy(spec)
    for n, o in s["objects"].items():
        if o["cls"] == "System":
            rnd.shuffle(o["params"]["usage_patterns"][1])
        elif o["cls"] == "UsagePattern":
            rnd.shuffle(o["params"]["devices"][1])
        elif o["cls"] == "UsageJourneyStep":
            rnd.shuffle(o["params"]["jobs"][1])
    return s


def run_case(case):
    tier = case["tier"]
    rnd = case_rng(case["seed"], case["idx"], "C19")
    C = {k: 0 for k in ("specs_compared", "observations_compared", "interpreter_processes", "specs_with_history", "list_permutation_variants",
                        "boundary_skipped", "build_errors", "shard_failures")}
    classes = set()
    jobs_per_shard = []
    specs = {}
    for si in range(SPECS_PER_CASE[tier]):
        if si == 4:
            from .c17 import builder_spec
            spec = builder_spec(rnd)            # one model with every builder class per batch
        else:
            spec = gen.rand_spec(rnd, "quick", jobless_ok=True, max_len=50)
        servers_ = [n for n, o in spec["objects"].items() if o["cls"] == "Server"]
        if servers_:
            # jobs declared on a server but used by no step (they never run): part of the model, although unreachable from the system
            from ..spec import obj, q
            for k_ in range(rnd.randint(1, 2)):
                spec["objects"][f"jidle{k_}"] = obj("Job", server=["ref", rnd.choice(servers_)], request_duration=q(90, "s"))
        key = f"{case['idx']}-{si}"
        tags = gen.topo_classes(spec)
        if any(len(o["params"]["jobs"][1]) >= 2 for o in spec["objects"].values() if o["cls"] == "UsageJourneyStep"):
            tags.add("several_jobs_in_a_step")
        specs[key] = {"spec": spec, "tags": tags}
        classes |= tags
        hist = []
        if si % 2 == 1:
            s_ev = copy.deepcopy(spec)
            for _ in range(4):
                e = edits.rand_edit(rnd, s_ev, ["num", "num", "link", "list_assign", "starts", "group"])
                try:
                    edits.apply_spec(e, s_ev)
                except Exception:
                    continue
                hist.append(e)
            specs[key]["history"] = True
        names = list(spec["objects"])
        variants = []
        for v in range(K[tier]):
            order = list(names); rnd.shuffle(order)
            sp = spec
            if not hist and v % 2 == 1:
                sp = permuted_lists(spec, rnd); C["list_permutation_variants"] += 1
            variants.append({"key": key, "variant": v, "spec": sp, "order": order, "id_seed": rnd.getrandbits(30), "edits": hist})
        if hist:
            # the same model once more with the SAME identifiers, later in the same process (a saved model loaded twice), then edited
            variants.append({"key": key, "variant": len(variants), "spec": spec, "order": list(variants[0]["order"]), "id_seed": variants[0]["id_seed"],
                             "edits": hist})
            classes.add("same_identifiers_twice_in_one_process")
        jobs_per_shard.extend(variants)
    tmp = tempfile.mkdtemp(prefix="c19")
    results = {}
    try:
        jobfile = os.path.join(tmp, "jobs.json")
        json.dump(jobs_per_shard, open(jobfile, "w"))
        procs = []
        for hsh in range(H[tier]):
            hs = (case["seed"] * 1000 + case["idx"] * 17 + hsh * 7919 + 1) % 4294967295
            out = os.path.join(tmp, f"out{hsh}.pkl")
            envv = dict(os.environ, PYTHONHASHSEED=str(hs), PYTHONDONTWRITEBYTECODE="1")
            p = subprocess.Popen([sys.executable, "-m", "vf.c19shard", jobfile, out], env=envv, cwd=env.VERIF,
                                 stdout=subprocess.DEVNULL, stderr=subprocess.PIPE)
            procs.append((p, out, hs))
        for p, out, hs in procs:
            try:
                _, err = p.communicate(timeout=PER_CASE_TIMEOUT[tier] - 20)
            except subprocess.TimeoutExpired:
                p.kill(); C["shard_failures"] += 1; continue
            if p.returncode != 0 or not os.path.exists(out):
                C["shard_failures"] += 1
                continue
            C["interpreter_processes"] += 1
            for rec in pickle.load(open(out, "rb")):
                if rec["key"] == "__reach__":
                    from .. import reach
                    reach.SEEN.update(tuple(x) for x in rec["reach"])      # executed by the shard on behalf of this worker
                    continue
                results.setdefault(rec["key"], []).append(rec)
    finally:
        shutil.rmtree(tmp, ignore_errors=True)
    V = []
    nt = False
    digs = []
    for key, recs in results.items():
        ok = [r for r in recs if "snapshot" in r]
        errs = [r for r in recs if "error" in r]
        if errs and ok:
            V.append({"kind": "the same model builds in some orders / processes and raises in others", "errors": sorted({r["error"] for r in errs})[:2],
                      "n_ok": len(ok), "n_raised": len(errs)})
            continue
        if errs:
            C["build_errors"] += 1
            continue
        if any(r["ambiguous"] for r in ok):
            C["boundary_skipped"] += 1
            continue
        C["specs_compared"] += 1
        if specs[key].get("history"):
            C["specs_with_history"] += 1
        ref = ok[0]
        for r in ok[1:]:
            C["observations_compared"] += 1
            d = observe.diff(ref["snapshot"], r["snapshot"])
            if d:
                V.append({"kind": "results depend on creation order / identifiers / hash seed / order of an order-irrelevant list",
                          "n_slots": len(d), "slots": observe.explain_diff(ref["snapshot"], r["snapshot"], d),
                          "variant_a": {"variant": ref["variant"], "hash_seed": ref["hash_seed"]}, "variant_b": {"variant": r["variant"], "hash_seed": r["hash_seed"]},
                          "with_edit_history": bool(specs[key].get("history")), "topology": sorted(specs[key]["tags"])})
                break
        if len({r["hash_seed"] for r in ok}) >= 2 and specs[key]["tags"] & {"job_shared_by_2_patterns", "network_shared", "country_shared", "server_shared_by_patterns",
                                                                              "device_shared", "several_jobs_in_a_step"}:
            nt = True
        digs.append(observe.digest(ref["snapshot"]))
    return {"counters": C, "classes": sorted(classes), "violations": V[:3], "nontrivial": nt,
            "digest": hashlib.md5(repr(digs).encode()).hexdigest()[:16],
            "sample": {"specs": len(specs), "variants_per_spec": K[tier], "processes": H[tier], "counters": C} if case["idx"] < 2 else None}
