"""C18 — a computed model is a fixed point and computing never alters inputs (observation before/after extra passes)."""
import hashlib, io, contextlib
from .. import env, gen, edits, observe
from ..history import Hist, case_rng

ID = "C18"
LEVEL = "exploration"
RULE = ("case = generated system (every 4th with builder classes) after an edit history. Schedules of explicit recomputation requests: each "
        "object alone, random subsets in random order, single update rules in random order, the whole canonical chain, "
        "system.after_init() again - after each the calculated observation must be unchanged. Then reads, str(), explain() of every "
        "value, to_json in both modes, plots (Agg), plot_footprints_by_category_and_object(return_only_html=True), "
        "plot_emission_diffs - after each the physical digest of every input must be unchanged, and a last full recomputation must "
        "still reproduce the same results. distinct = final snapshot digest; non-trivial = the model has >= 1 non-empty calculated "
        "series and >= 5 schedules were run")
BUDGET = {"quick": 260, "thorough": 1800}
N = {"quick": 110, "thorough": 2000}


def cases(tier, seed):
    return [{"seed": seed, "idx": i, "tier": tier, "n_edits": 3} for i in range(N[tier])]


def requirements(tier):
    k = 1 if tier == "quick" else 15
    return {"min_counters": {"recompute_schedules": 1500 * k, "input_digest_checks": 450 * k,
                             "exports": 200 * k, "explain_calls": 12000 * k, "plots": 150 * k, "systems_with_builders": 15 * k},
            "required_classes": ["job_shared_by_2_patterns", "jobless_pattern", "multi_timezone", "builders", "non_integer_hourly_input"]}


def inputs_digest(E, objs_list):
    out = {}
    for o in objs_list:
        calc = set(o.calculated_attributes)
        for k, v in o.__dict__.items():
            if k in calc or k in observe.INTERNAL or k in observe.BOOKKEEPING:
                continue
            if isinstance(v, E.ExplainableObject) and not isinstance(v, dict):
                out[(o.name, k)] = observe.vrepr(v)
            elif isinstance(v, E.ContextualModelingObjectAttribute):
                out[(o.name, k)] = ("link", v.name)
            elif isinstance(v, list):
                out[(o.name, k)] = ("links", tuple(x.name for x in v))
    return out


def inputs_changed(a, b):
    bad = []
    for k in set(a) | set(b):
        x, y = a.get(k), b.get(k)
        if x is None or y is None or x[0] != y[0]:
            bad.append(k); continue
        if x[0] in ("h", "q", "empty"):
            if not observe.close(x, y, rtol=1e-12) or (x[0] == "h" and x[3] != y[3]):
                bad.append(k)
        elif x != y:
            bad.append(k)
    return bad


def run_case(case):
    E = env.load()
    rnd = case_rng(case["seed"], case["idx"], "C18")
    spec = None
    classes = set()
    if case["idx"] % 4 == 1:
        from .c17 import builder_spec
        spec = builder_spec(rnd); classes.add("builders")
    h = Hist(rnd, case["tier"], spec=spec, max_len=50)
    C = {k: 0 for k in ("recompute_schedules", "single_rule_recomputations", "input_digest_checks", "exports", "explain_calls", "plots",
                        "systems_with_builders", "build_failed")}
    classes |= set(gen.topo_classes(h.spec))
    if h.build_error:
        C["build_failed"] = 1
        return {"counters": C, "classes": sorted(classes), "violations": []}
    if spec is not None:
        C["systems_with_builders"] = 1
    # non-integer hourly inputs (exports round hourly values: they must not round the model's own inputs)
    ups = [n for n, o in h.spec["objects"].items() if o["cls"] == "UsagePattern"]
    if ups:
        e = {"op": "set", "obj": ups[0], "attr": "hourly_usage_journey_starts", "kind": "starts",
             "value": ["h", [x + 0.23456 for x in h.spec["objects"][ups[0]]["params"]["hourly_usage_journey_starts"][1]],
                       *h.spec["objects"][ups[0]]["params"]["hourly_usage_journey_starts"][2:]]}
        if h.apply(e) is None:
            classes.add("non_integer_hourly_input")
    # an input that is ADDED to a calculated series, edited twice (an update rule that writes into its operand is not idempotent)
    for _ in range(2):
        e = edits.storage_base_edit(rnd, h.spec)
        if e is not None and h.apply(e) is None:
            classes.add("initial_storage_need_edited")
    f3_nets = set()
    for _ in range(case["n_edits"]):
        sb = h.spec
        if h.apply(h.propose()) is not None:
            break
        from .c01 import f3_networks
        f3_nets |= f3_networks(sb, h.spec)
    sysm = h.system
    objs_list = observe.all_objects(sysm)
    V = []
    snap0 = observe.snapshot(sysm)
    in0 = inputs_digest(E, objs_list)
    ctx = {"history": h.log[-5:]}

    def same(tag):
        C["recompute_schedules"] += 1
        s = observe.snapshot(sysm)
        d = observe.diff(snap0, s, rtol=1e-12)
        if d:
            mech = None
            if f3_nets and set(d) <= ({(n, "energy_footprint") for n in f3_nets} | {(h.spec["system"], "total_footprint")}):
                mech = "F3-network-of-jobless-pattern-not-recomputed"       # the stale network of known finding F3 gets its value at last
            V.append({"kind": "calculated values changed by a recomputation without input change", "schedule": tag, "n_slots": len(d),
                      "slots": observe.explain_diff(s, snap0, d), "mechanism": mech, **ctx})
            return False
        return True

    def inputs_same(tag):
        C["input_digest_checks"] += 1
        bad = inputs_changed(in0, inputs_digest(E, objs_list))
        if bad:
            V.append({"kind": "an input changed physically", "after": tag, "inputs": [list(map(str, b)) for b in bad[:5]], **ctx})
            return False
        return True
    try:
        # each object alone (in random order), then random subsets
        order = [o for o in objs_list if not isinstance(o, E.System)]
        rnd.shuffle(order)
        for o in order:
            o.compute_calculated_attributes()
            if not same(f"{o.name}.compute_calculated_attributes()"):
                break
        for _ in range(3):
            if V: break
            sub = rnd.sample(order, rnd.randint(1, len(order)))
            for o in sub:
                o.compute_calculated_attributes()
            same("subset " + ",".join(o.name for o in sub))
        if not V:
            sysm.launch_mod_objs_computation_chain(sysm.mod_objs_computation_chain[1:]); sysm.compute_calculated_attributes()
            same("whole chain")
        if not V:
            sysm.after_init(); same("system.after_init() again")
        inputs_same("recomputations")
        # reads / explain / str / export / plots
        if not V:
            for o in objs_list:
                str(o); repr(o)
                for a in list(o.__dict__):
                    v = o.__dict__[a]
                    for x in (v.values() if isinstance(v, dict) and isinstance(v, E.ExplainableObjectDict) else [v]):
                        if isinstance(x, E.ExplainableObject):
                            C["explain_calls"] += 1
                            x.explain(); str(x)
            inputs_same("reads, str() and explain() of every value")
        if not V:
            # results read in other units (the public in-place .to()), then the system alone recomputed: same physical values
            for o in objs_list:
                for a in ("instances_fabrication_footprint", "energy_footprint", "instances_energy"):
                    v = o.__dict__.get(a)
                    if isinstance(v, E.ExplainableHourlyQuantities):
                        try:
                            v.to(E.u.tonne if "footprint" in a else E.u.Wh); C["results_read_in_other_units"] = C.get("results_read_in_other_units", 0) + 1
                        except Exception:
                            pass
            sysm.compute_calculated_attributes()
            same("system.compute_calculated_attributes() after results were read in other units")
        if not V:
            for mode in (False, True):
                E.system_to_json(sysm, save_calculated_attributes=mode); C["exports"] += 1
                if not inputs_same(f"system_to_json(save_calculated_attributes={mode})"):
                    break
            same("exports")
        if not V:
            import matplotlib
            matplotlib.use("Agg")
            import matplotlib.pyplot as plt
            hourly = [v for o in objs_list for v in o.__dict__.values() if isinstance(v, E.ExplainableHourlyQuantities)]
            for v in rnd.sample(hourly, min(3, len(hourly))):
                v.plot(cumsum=rnd.random() < 0.5); C["plots"] += 1
                plt.close("all")
            with contextlib.redirect_stdout(io.StringIO()):
                # the summary plots are not robust to degenerate models (no server, all-zero traffic): a plot that raises is
                # counted, not alarmed - the property is about inputs staying unchanged
                for f in (lambda: sysm.plot_footprints_by_category_and_object(return_only_html=True),
                          (lambda: sysm.plot_emission_diffs()) if sysm.previous_change is not None else None):
                    if f is None:
                        continue
                    try:
                        f(); C["plots"] += 1
                    except Exception:
                        C["plots_raised"] = C.get("plots_raised", 0) + 1
                    plt.close("all")
            inputs_same("plots"); same("plots")
        if not V:
            sysm.after_init(); same("full recomputation after reads / exports / plots")
    except Exception as e:
        import traceback
        V.append({"kind": f"a computation / read / export / plot raised {type(e).__name__}: {str(e)[:200]}", "trace": traceback.format_exc()[-600:], **ctx})
    nonempty = any(r[0] == "h" for r in snap0.values())
    return {"counters": C, "classes": sorted(classes), "violations": V[:3], "nontrivial": nonempty and C["recompute_schedules"] >= 5,
            "digest": observe.digest(snap0), "sample": h.summary() if case["idx"] < 3 else None}


def witness(fid):
    from .c01 import witness as w
    return w(fid)
