"""Contracts (pre/post-condition monitors) installed from outside on the real arithmetic operators of the explainable
value classes. They never raise: a broken post-condition is appended to VIOLATIONS, evaluations are counted in COUNTS.
Active under the dedicated operand generators and under every system workload that runs while they are installed."""
import math, numbers, functools, collections
import numpy as np
from . import env, observe
from .series import S

VIOLATIONS = []
COUNTS = collections.Counter()
_installed = False
_depth = [0]
RT = 1e-9


def dims(r):
    return None if r[0] == "empty" else r[1]


def ser(r):
    return {} if r[0] == "empty" else dict(zip(r[3], (float(x) for x in r[4])))


def same_phys(a, b):
    if a[0] != b[0]:
        return False
    if a[0] == "h":
        return a[1:4] == b[1:4] and np.allclose(a[4], b[4], rtol=1e-12, atol=0.0, equal_nan=True)
    if a[0] == "q":
        return a[1] == b[1] and (abs(a[2] - b[2]) <= 1e-12 * max(abs(a[2]), abs(b[2])))
    return a == b


def unit_of(E, x):
    return x.unit if isinstance(x, E.ExplainableHourlyQuantities) else x.value.units


def mul_dim(E, a, b, div=False):
    """dimensionality of a product / quotient of the two operands, computed with plain pint"""
    qa, qb = 1 * unit_of(E, a), 1 * unit_of(E, b)
    r = qa / qb if div else qa * qb
    return str(r.to_base_units().units.dimensionality)


def record(kind, op, detail):
    if len(VIOLATIONS) < 50:
        VIOLATIONS.append({"kind": kind, "op": op, **detail})


def brief(r):
    return observe.describe(r)


def check_binary(E, op, a, b, ra, rb, res, exc, reflected):
    """a op b -> res (or exc). ra/rb are the physical reprs taken BEFORE the call."""
    COUNTS["op_" + op] += 1
    is_num_a = isinstance(a, numbers.Number); is_num_b = isinstance(b, numbers.Number)
    if is_num_a or is_num_b:
        return     # x + 0 (sum()) and x * 0: outside the statement
    ka, kb = ra[0], rb[0]
    # operands keep their physical value
    for who, x, r0 in (("left", a, ra), ("right", b, rb)):
        r1 = observe.vrepr(x)
        if not same_phys(r0, r1):
            record("operand changed by the operation", op, {"operand": who, "before": brief(r0), "after": brief(r1)})
    # the result records its operands (the very objects) and the operator symbol: what explain() and the graph are built from
    if exc is None and isinstance(res, (E.ExplainableQuantity, E.ExplainableHourlyQuantities)) and res is not a and res is not b \
            and getattr(res, "operator", None) in ("+", "-", "*", "/"):
        COUNTS["parents_recorded_checked"] += 1
        lp, rp = res.left_parent, res.right_parent
        if res.operator != op:
            record("result records another operator than the one applied", op, {"recorded": res.operator})
        elif op in ("-", "/"):
            if lp is not a or rp is not b:
                record("result does not record its operands as (left, right) parents", op, {"left": brief(ra), "right": brief(rb)})
        elif not ((lp is a and rp is b) or (lp is b and rp is a)):
            record("result does not record its operands as parents", op, {"left": brief(ra), "right": brief(rb)})
    da, db = dims(ra), dims(rb)
    if op in ("+", "-"):
        if ka != "empty" and kb != "empty" and ka == kb and da != db:
            COUNTS["incompatible_dimension_pairs"] += 1
            if exc is None:
                record("incompatible dimensions combined without error", op, {"left": brief(ra), "right": brief(rb), "result": brief(observe.vrepr(res))})
            return
        if exc is not None:
            if ka == kb or "empty" in (ka, kb):
                if ka == kb == "h" and ra[2] != rb[2]:
                    return      # naive vs tz-aware: TypeError by design
                if op == "-" and ka == "empty" and kb != "empty":
                    return      # empty - x raises by design
                record("supported operation raised", op, {"left": brief(ra), "right": brief(rb), "error": f"{type(exc).__name__}: {exc}"[:200]})
            return
        rr = observe.vrepr(res)
        if ka == "empty" and kb == "empty":
            ok = rr[0] == "empty"
        elif ka == "empty" or kb == "empty":
            other = rb if ka == "empty" else ra
            ok = rr[0] == other[0] and observe.close(rr, other, rtol=RT)      # empty is neutral
            COUNTS["empty_neutral_checked"] += 1
        elif ka == "q":
            exp = ra[2] + rb[2] if op == "+" else ra[2] - rb[2]
            ok = rr[0] == "q" and rr[1] == da and abs(rr[2] - exp) <= RT * max(abs(ra[2]), abs(rb[2]), 1e-300)
        else:
            if op == "-" and ra[3] != rb[3]:
                return      # subtraction with missing hours is not part of the statement
            sa, sb = ser(ra), ser(rb)
            exp = dict(sa)
            for t, x in sb.items():
                exp[t] = exp.get(t, 0.0) + (x if op == "+" else -x)
            got = ser(rr) if rr[0] == "h" else None
            scale = max([abs(x) for x in list(sa.values()) + list(sb.values())] + [1e-300])
            ok = got is not None and rr[1] == da and set(got) == set(exp) and all(abs(got[t] - exp[t]) <= RT * scale for t in exp)
            COUNTS["hourly_aligned_checked"] += 1
            if ra[3] != rb[3]:
                COUNTS["hourly_misaligned_checked"] += 1
        if not ok:
            record("result differs from unit-aware reference", op, {"left": brief(ra), "right": brief(rb), "result": brief(rr)})
    elif op in ("*", "/"):
        if exc is not None:
            if op == "/" and (kb == "h" and ka == "h"):
                return      # hourly / hourly: NotImplementedError by design
            if op == "/" and kb == "empty":
                return
            if ka == kb == "h" and ra[2] != rb[2]:
                return
            if op == "/" and ka == "empty" and kb == "h":
                return
            if op == "/" and isinstance(exc, ZeroDivisionError):
                return      # division by a zero quantity raises (pint), it does not yield a number
            record("supported operation raised", op, {"left": brief(ra), "right": brief(rb), "error": f"{type(exc).__name__}: {exc}"[:200]})
            return
        rr = observe.vrepr(res)
        if ka == "empty" or kb == "empty":
            COUNTS["empty_absorbing_checked"] += 1
            if rr[0] != "empty":
                record("empty is not absorbing", op, {"left": brief(ra), "right": brief(rb), "result": brief(rr)})
            return
        try:
            dexp = mul_dim(E, a, b, div=(op == "/"))
        except Exception:
            dexp = None
        if ka == "q" and kb == "q":
            exp = ra[2] * rb[2] if op == "*" else (ra[2] / rb[2] if rb[2] != 0 else math.inf)
            ok = rr[0] == "q" and (dexp is None or rr[1] == dexp) and (abs(rr[2] - exp) <= RT * max(abs(exp), 1e-300) or (math.isinf(exp) and not math.isfinite(rr[2])) or (exp != exp))
        else:
            sa = ser(ra) if ka == "h" else None
            sb = ser(rb) if kb == "h" else None
            if sa is not None and sb is not None:
                keys = set(sa) | set(sb)
                exp = {t: sa.get(t, 0.0) * sb.get(t, 0.0) for t in keys}
                if ra[3] != rb[3]:
                    COUNTS["hourly_misaligned_checked"] += 1
            elif sa is not None:
                exp = {t: (x * rb[2] if op == "*" else (x / rb[2] if rb[2] != 0 else math.copysign(math.inf, x) if x else math.nan)) for t, x in sa.items()}
            else:
                exp = {t: (ra[2] * x if op == "*" else (ra[2] / x if x != 0 else math.inf)) for t, x in sb.items()}
            got = ser(rr) if rr[0] == "h" else None
            COUNTS["hourly_aligned_checked"] += 1
            scale = max([abs(x) for x in exp.values() if math.isfinite(x)] + [1e-300])
            ok = got is not None and (dexp is None or rr[1] == dexp) and set(got) == set(exp) and all(
                (abs(got[t] - exp[t]) <= RT * scale) or (not math.isfinite(exp[t])) for t in exp)
        if not ok:
            record("result differs from unit-aware reference", op, {"left": brief(ra), "right": brief(rb), "result": brief(rr), "expected_dim": dexp})


def _wrap_binary(E, cls, name, op, reflected):
    orig = getattr(cls, name)

    @functools.wraps(orig)
    def w(self, other):
        if _depth[0] > 0 or not isinstance(other, (E.ExplainableObject, numbers.Number)):
            return orig(self, other)
        _depth[0] += 1
        try:
            rs = observe.vrepr(self); ro = observe.vrepr(other) if isinstance(other, E.ExplainableObject) else ("num", other)
        finally:
            _depth[0] -= 1
        res, exc = None, None
        _depth[0] += 1      # nested delegations (empty + x -> x.__add__(empty)) are part of this evaluation
        try:
            res = orig(self, other)
        except Exception as e:
            exc = e
        finally:
            _depth[0] -= 1
        _depth[0] += 1
        try:
            a, b, ra, rb = (other, self, ro, rs) if reflected else (self, other, rs, ro)
            if res is not NotImplemented:
                check_binary(E, op, a, b, ra, rb, res, exc, reflected)
        except Exception as e:      # a monitor must never break the run
            COUNTS["monitor_errors"] += 1
            if COUNTS["monitor_errors"] < 5:
                record("MONITOR ERROR (harness)", op, {"error": f"{type(e).__name__}: {e}"[:300]})
        finally:
            _depth[0] -= 1
        if exc is not None:
            raise exc
        return res
    setattr(cls, name, w)


def check_unary(E, name, self, r0, args, res, exc):
    COUNTS["op_" + name] += 1
    if exc is not None:
        record("helper raised", name, {"operand": brief(r0), "error": f"{type(exc).__name__}: {exc}"[:200]}); return
    r1 = observe.vrepr(self)
    if name not in ("to", "round_inplace") and not same_phys(r0, r1):
        record("operand changed by the operation", name, {"before": brief(r0), "after": brief(r1)})
    if name == "to":
        if not observe.close(r0, r1, rtol=1e-12) or res is not self:
            record("to() changed the physical value", name, {"before": brief(r0), "after": brief(r1)})
        return
    rr = observe.vrepr(res)
    if r0[0] == "empty":
        if rr[0] != "empty":
            record("helper on empty returned a value", name, {"result": brief(rr)})
        return
    if r0[0] == "h":
        v = r0[4]
        if name == "sum": ok = rr[0] == "q" and rr[1] == r0[1] and abs(rr[2] - float(np.sum(v))) <= RT * max(float(np.sum(np.abs(v))), 1e-300)
        elif name == "max": ok = rr[0] == "q" and rr[1] == r0[1] and rr[2] == float(np.max(v))
        elif name == "mean": ok = rr[0] == "q" and rr[1] == r0[1] and abs(rr[2] - float(np.mean(v))) <= RT * max(float(np.max(np.abs(v))), 1e-300)
        elif name == "abs": ok = rr[0] == "h" and rr[1:4] == r0[1:4] and np.array_equal(rr[4], np.abs(v))
        elif name == "neg": ok = rr[0] == "h" and rr[1:4] == r0[1:4] and np.array_equal(rr[4], -v)
        elif name == "copy": ok = same_phys(rr, r0) and res is not self and res.left_parent is self
        elif name == "ceil":
            own = np.asarray(self.value["value"].values._data, dtype=float)
            got = np.asarray(res.value["value"].values._data, dtype=float)
            ok = rr[0] == "h" and rr[1:4] == r0[1:4] and np.array_equal(got, np.ceil(own)) and res.unit == self.unit
        elif name == "round":
            own = np.asarray(self.value["value"].values._data, dtype=float)
            got = np.asarray(res.value["value"].values._data, dtype=float) if rr[0] == "h" else None
            ok = got is not None and rr[1:4] == r0[1:4] and np.array_equal(got, np.round(own, args[0])) and res.unit == self.unit and res is not self
        elif name == "shift":
            h = math.floor(args[0].value.to("hour").magnitude)
            ok = rr[0] == "h" and rr[1] == r0[1] and tuple(t + h * 3600 * 10**9 for t in r0[3]) == rr[3] and np.array_equal(rr[4], v)
        else:
            ok = True
    else:
        if name == "copy": ok = same_phys(rr, r0) and res is not self
        elif name == "ceil":
            ok = rr[0] == "q" and rr[1] == r0[1] and float(res.value.magnitude) == math.ceil(float(self.value.magnitude)) and res.value.units == self.value.units
        elif name == "round":
            ok = (rr[0] == "q" and rr[1] == r0[1] and float(res.value.magnitude) == round(float(self.value.magnitude), args[0])
                  and res.value.units == self.value.units and res is not self)
        else:
            ok = True
    if not ok:
        record("helper result differs from reference", name, {"operand": brief(r0), "result": brief(rr)})


def _wrap_unary(E, cls, attr, name):
    orig = getattr(cls, attr)

    @functools.wraps(orig)
    def w(self, *args):
        if _depth[0] > 0:
            return orig(self, *args)
        _depth[0] += 1
        try:
            r0 = observe.vrepr(self)
        finally:
            _depth[0] -= 1
        res, exc = None, None
        _depth[0] += 1
        try:
            res = orig(self, *args)
        except Exception as e:
            exc = e
        finally:
            _depth[0] -= 1
        _depth[0] += 1
        try:
            check_unary(E, name, self, r0, args, res, exc)
        except Exception as e:
            COUNTS["monitor_errors"] += 1
            if COUNTS["monitor_errors"] < 5:
                record("MONITOR ERROR (harness)", name, {"error": f"{type(e).__name__}: {e}"[:300]})
        finally:
            _depth[0] -= 1
        if exc is not None:
            raise exc
        return res
    setattr(cls, attr, w)


def check_compare(E, self, other, comparator, r0, ro, res, exc):
    COUNTS["op_np_compared_with"] += 1
    if ro[0] == "h" and r0[0] == "h" and r0[2] != ro[2]:
        return      # tz-naive against tz-aware series: outside the statement (no common time line)
    if ro[0] == "h" and r0[0] == "h" and r0[1] != ro[1]:
        COUNTS["incompatible_dimension_pairs"] += 1
        if exc is None:
            record("incompatible dimensions compared without error", "np_compared_with", {"left": brief(r0), "right": brief(ro)})
        return
    if exc is not None:
        if r0[0] == "h" and ro[0] == "h" and r0[2] != ro[2]:
            return
        record("supported operation raised", "np_compared_with", {"left": brief(r0), "right": brief(ro), "error": f"{type(exc).__name__}: {exc}"[:200]})
        return
    for who, x, rb in (("left", self, r0), ("right", other, ro)):
        if not same_phys(rb, observe.vrepr(x)):
            record("operand changed by the operation", "np_compared_with", {"operand": who})
    rr = observe.vrepr(res)
    sa, sb = ser(r0), ser(ro)
    f = max if comparator == "max" else min
    exp = {t: f(sa.get(t, 0.0), sb.get(t, 0.0)) for t in set(sa) | set(sb)}
    got = ser(rr) if rr[0] == "h" else ({} if rr[0] == "empty" else None)
    scale = max([abs(x) for x in list(sa.values()) + list(sb.values())] + [1e-300])
    if got is None or set(got) != set(exp) or any(abs(got[t] - exp[t]) > RT * scale for t in exp) or (rr[0] == "h" and rr[1] != (r0[1] if r0[0] == "h" else ro[1])):
        record("element-wise max/min differs from timestamp-aligned unit-aware reference", "np_compared_with",
               {"left": brief(r0), "right": brief(ro), "result": brief(rr), "comparator": comparator})


def install():
    """wrap the operators of the three value classes (idempotent)"""
    global _installed
    if _installed:
        return
    E = env.load()
    Q, H, Z = E.ExplainableQuantity, E.ExplainableHourlyQuantities, E.EmptyExplainableObject
    for cls in (Q, H, Z):
        for name, op, refl in (("__add__", "+", False), ("__radd__", "+", True), ("__sub__", "-", False), ("__rsub__", "-", True),
                               ("__mul__", "*", False), ("__rmul__", "*", True), ("__truediv__", "/", False), ("__rtruediv__", "/", True)):
            if name in cls.__dict__:
                _wrap_binary(E, cls, name, op, refl)
    for cls in (H, Z):
        for attr, name in (("sum", "sum"), ("max", "max"), ("abs", "abs"), ("ceil", "ceil"), ("copy", "copy")):
            if attr in cls.__dict__:
                _wrap_unary(E, cls, attr, name)
    for cls in (Q, H):
        _wrap_unary(E, cls, "__round__", "round")
    _wrap_unary(E, H, "mean", "mean"); _wrap_unary(E, H, "__neg__", "neg"); _wrap_unary(E, H, "return_shifted_hourly_quantities", "shift")
    _wrap_unary(E, H, "to", "to"); _wrap_unary(E, Q, "to", "to"); _wrap_unary(E, Q, "ceil", "ceil"); _wrap_unary(E, Q, "copy", "copy")
    for cls in (H, Z):
        orig = cls.__dict__["np_compared_with"]

        def make(orig):
            @functools.wraps(orig)
            def w(self, compared_object, comparator):
                if _depth[0] > 0 or not isinstance(compared_object, E.ExplainableObject):
                    return orig(self, compared_object, comparator)
                _depth[0] += 1
                try:
                    r0, ro = observe.vrepr(self), observe.vrepr(compared_object)
                finally:
                    _depth[0] -= 1
                res, exc = None, None
                _depth[0] += 1
                try:
                    res = orig(self, compared_object, comparator)
                except Exception as e:
                    exc = e
                finally:
                    _depth[0] -= 1
                _depth[0] += 1
                try:
                    check_compare(E, self, compared_object, comparator, r0, ro, res, exc)
                except Exception as e:
                    COUNTS["monitor_errors"] += 1
                    record("MONITOR ERROR (harness)", "np_compared_with", {"error": f"{type(e).__name__}: {e}"[:300]})
                finally:
                    _depth[0] -= 1
                if exc is not None:
                    raise exc
                return res
            return w
        setattr(cls, "np_compared_with", make(orig))
    _installed = True


def drain():
    """returns (violations, counts) accumulated since the last drain"""
    v = list(VIOLATIONS); c = dict(COUNTS)
    VIOLATIONS.clear(); COUNTS.clear()
    return v, c
