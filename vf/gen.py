"""Seeded generators of well-formed specs (topology classes of DESIGN.md §2.3) and their classification."""
import random
from datetime import datetime, timedelta
from .spec import obj, q, prune, names_of, refs_of, SERVER_CLS, JOB_CLS

ZONES = ["Europe/Paris", "Asia/Kuala_Lumpur", "Asia/Kolkata", "America/New_York", "Australia/Lord_Howe",
         "Asia/Kathmandu", "UTC", "Pacific/Apia", "America/Anchorage", "America/Sao_Paulo", "Africa/Casablanca"]
STARTS = ["2025-01-01T00:00:00", "2025-03-29T20:00:00", "2025-10-25T18:00:00", "2024-02-28T05:00:00",
          "2025-01-01T03:00:00", "2025-03-08T21:00:00", "2025-01-02T07:00:00"]
DURS = [(0.5, "s"), (1, "s"), (90, "s"), (1, "hour"), (4000, "s"), (2.5, "hour"), (59.99, "min"), (61, "min")]
STEP_TIMES = [(0, "min"), (1, "min"), (20, "min"), (70, "min"), (3, "hour"), (60, "min"), (1, "s")]
START_VALUES = [0, 0, 10, 137, 1000, 2513, 41.5]


def rand_spec(rnd, tier="quick", zones=None, jobless_ok=True, server_types=("autoscaling", "on-premise", "serverless"),
              max_len=None):
    zones = zones or ZONES
    O = {}
    nsrv = rnd.randint(1, 3)
    for i in range(nsrv):
        O[f"st{i}"] = obj("Storage", data_storage_duration=q(*rnd.choice([(5, "year"), (3, "hour"), (30, "hour")])),
                          data_replication_factor=q(rnd.choice([1, 2, 3]), "dimensionless"),
                          base_storage_need=q(rnd.choice([0, 1.37, 50.37]), "TB"),
                          storage_capacity=q(rnd.choice([1.13, 0.0013]), "TB"),
                          idle_power=q(rnd.choice([0, 0.1]), "W"))
        O[f"srv{i}"] = obj("Server", storage=["ref", f"st{i}"], server_type=["s", rnd.choice(server_types)],
                           ram=q(rnd.choice([16, 128]), "GB"), compute=q(rnd.choice([8, 24]), "cpu_core"),
                           base_ram_consumption=q(rnd.choice([0, 0.3]), "GB"),
                           base_compute_consumption=q(rnd.choice([0, 2]), "cpu_core"),
                           average_carbon_intensity=q(rnd.choice([100, 233]), "g/kWh"),
                           power_usage_effectiveness=q(rnd.choice([1.2, 1.37]), "dimensionless"))
    njobs = rnd.randint(1, 5 if tier == "quick" else 6)
    for i in range(njobs):
        O[f"j{i}"] = obj("Job", server=["ref", f"srv{rnd.randrange(nsrv)}"], request_duration=q(*rnd.choice(DURS)),
                         data_transferred=q(rnd.choice([0, 150, 3137]), "kB"),
                         data_stored=q(rnd.choice([0, 100, 100, 2371]), "kB"),
                         compute_needed=q(rnd.choice([0.1, 1.3, 2]), "cpu_core"),
                         ram_needed=q(rnd.choice([50, 537]), "MB"))
    nsteps = rnd.randint(1, 4)
    for i in range(nsteps):
        k = rnd.choice([0, 1, 1, 2, 3]) if jobless_ok else rnd.choice([1, 1, 2, 3])
        O[f"s{i}"] = obj("UsageJourneyStep", user_time_spent=q(*rnd.choice(STEP_TIMES)),
                         jobs=["refs", [f"j{rnd.randrange(njobs)}" for _ in range(k)]])
    nuj = rnd.randint(1, 3)
    for i in range(nuj):
        k = rnd.randint(1, 3)
        O[f"uj{i}"] = obj("UsageJourney", uj_steps=["refs", [f"s{rnd.randrange(nsteps)}" for _ in range(k)]])
    nnet = rnd.randint(1, 2)
    for i in range(nnet):
        O[f"n{i}"] = obj("Network", bandwidth_energy_intensity=q(rnd.choice([0.05, 0.12]), "kWh/GB"))
    ncty = rnd.randint(1, 2)
    for i in range(ncty):
        O[f"c{i}"] = obj("Country", short_name=["str", f"C{i}"], average_carbon_intensity=q(rnd.choice([85, 549]), "g/kWh"),
                         timezone=["tz", rnd.choice(zones)])
    ndev = rnd.randint(1, 3)
    for i in range(ndev):
        O[f"d{i}"] = obj("Device", power=q(rnd.choice([1, 50]), "W"), carbon_footprint_fabrication=q(rnd.choice([30, 156]), "kg"),
                         lifespan=q(rnd.choice([3, 6]), "year"), fraction_of_usage_time=q(rnd.choice([3.6, 7]), "hour/day"))
    nup = rnd.randint(1, 3 if tier == "quick" else 4)
    lens = [3, 9, 24, 50] if tier == "quick" else [3, 9, 24, 50, 120, 400]
    if max_len:
        lens = [x for x in lens if x <= max_len]
    for i in range(nup):
        n = rnd.choice(lens)
        O[f"up{i}"] = obj("UsagePattern", usage_journey=["ref", f"uj{rnd.randrange(nuj)}"], network=["ref", f"n{rnd.randrange(nnet)}"],
                          country=["ref", f"c{rnd.randrange(ncty)}"],
                          devices=["refs", rnd.sample([f"d{k}" for k in range(ndev)], rnd.randint(1, ndev))],
                          hourly_usage_journey_starts=["h", [rnd.choice(START_VALUES) for _ in range(n)], rnd.choice(STARTS), "dimensionless"])
    if nup >= 2 and rnd.random() < 0.12:
        # two patterns whose UTC series start at the same instant and have the same length, one of them with a daylight-saving
        # gap in its UTC index (Paris, autumn change) and the other without (Tunis): same span, different hours
        n = rnd.choice([9, 24, 50])
        O["cdst0"] = obj("Country", short_name=["str", "FR"], average_carbon_intensity=q(85, "g/kWh"), timezone=["tz", "Europe/Paris"])
        O["cdst1"] = obj("Country", short_name=["str", "TN"], average_carbon_intensity=q(468, "g/kWh"), timezone=["tz", "Africa/Tunis"])
        for up, c, st in (("up0", "cdst0", "2025-10-25T20:00:00"), ("up1", "cdst1", "2025-10-25T19:00:00")):
            O[up]["params"]["country"] = ["ref", c]
            O[up]["params"]["hourly_usage_journey_starts"] = ["h", [rnd.choice(START_VALUES[2:]) for _ in range(n)], st, "dimensionless"]
        O["up1"]["params"]["usage_journey"] = O["up0"]["params"]["usage_journey"]
        O["up1"]["params"]["network"] = O["up0"]["params"]["network"]
    ups_ = [f"up{i}" for i in range(nup)]
    if rnd.random() < 0.15:
        # an "island": a pattern that shares no job, journey or network with the others - the only kind of pattern that can leave the
        # system (and come back) without leaving dangling shared objects behind
        O["sti"] = obj("Storage"); O["srvi"] = obj("Server", storage=["ref", "sti"])
        O["ji"] = obj("Job", server=["ref", "srvi"], request_duration=q(90, "s"), data_transferred=q(3137, "kB"))
        O["si"] = obj("UsageJourneyStep", user_time_spent=q(20, "min"), jobs=["refs", ["ji"]])
        O["uji"] = obj("UsageJourney", uj_steps=["refs", ["si"]])
        O["ni"] = obj("Network", bandwidth_energy_intensity=q(0.07, "kWh/GB"))
        O["upi"] = obj("UsagePattern", usage_journey=["ref", "uji"], network=["ref", "ni"], country=["ref", "c0"], devices=["refs", ["d0"]],
                       hourly_usage_journey_starts=["h", [rnd.choice(START_VALUES[2:]) for _ in range(9)], rnd.choice(STARTS), "dimensionless"])
        ups_.append("upi")
    if rnd.random() < 0.15:
        # a job that deletes data, on a storage that starts with enough data to delete
        js = [n for n in O if O[n]["cls"] == "Job"]
        if js:
            j = rnd.choice(js)
            st = O[O[j]["params"]["server"][1]]["params"]["storage"][1]
            O[j]["params"]["data_stored"] = q(-rnd.choice([137, 2371]), "kB")
            O[st]["params"]["base_storage_need"] = q(rnd.choice([50.37, 500.37]), "TB")
    if rnd.random() < 0.3:
        # draft jobs: created on a server of the model for later use, called by no step yet
        for k in range(rnd.randint(1, 3)):
            O[f"jd{k}"] = obj("Job", server=["ref", rnd.choice([n for n in O if O[n]["cls"] == "Server"])], request_duration=q(rnd.choice([2, 90, 4000]), "s"),
                              data_stored=q(rnd.choice([0, 137]), "kB"))
    O["system"] = {"cls": "System", "params": {"usage_patterns": ["refs", ups_]}}
    return prune({"objects": O, "system": "system"})


def base_spec():
    """A fixed sharing-heavy model (two patterns sharing a job, a journey step, a device; two servers, two zones)."""
    O = {}
    O["st1"] = obj("Storage", data_storage_duration=q(5, "year"))
    O["st2"] = obj("Storage", data_storage_duration=q(30, "hour"), base_storage_need=q(1.37, "TB"))
    O["srv1"] = obj("Server", storage=["ref", "st1"], base_ram_consumption=q(0.3, "GB"), base_compute_consumption=q(2, "cpu_core"))
    O["srv2"] = obj("Server", storage=["ref", "st2"], server_type=["s", "on-premise"])
    O["j1"] = obj("Job", server=["ref", "srv1"])
    O["j2"] = obj("Job", server=["ref", "srv1"], request_duration=q(4000, "s"), data_transferred=q(3.137, "MB"))
    O["j3"] = obj("Job", server=["ref", "srv2"], request_duration=q(90, "s"), data_stored=q(2371, "kB"))
    O["s1"] = obj("UsageJourneyStep", user_time_spent=q(20, "min"), jobs=["refs", ["j1"]])
    O["s2"] = obj("UsageJourneyStep", user_time_spent=q(70, "min"), jobs=["refs", ["j2", "j3"]])
    O["s3"] = obj("UsageJourneyStep", user_time_spent=q(1, "min"), jobs=["refs", ["j1", "j3"]])
    O["uj1"] = obj("UsageJourney", uj_steps=["refs", ["s1", "s2"]])
    O["uj2"] = obj("UsageJourney", uj_steps=["refs", ["s3", "s1"]])
    O["n1"] = obj("Network", bandwidth_energy_intensity=q(0.05, "kWh/GB"))
    O["n2"] = obj("Network", bandwidth_energy_intensity=q(0.12, "kWh/GB"))
    O["c1"] = obj("Country", short_name=["str", "FRA"], average_carbon_intensity=q(85, "g/kWh"), timezone=["tz", "Europe/Paris"])
    O["c2"] = obj("Country", short_name=["str", "MY"], average_carbon_intensity=q(549, "g/kWh"), timezone=["tz", "Asia/Kuala_Lumpur"])
    O["d1"] = obj("Device", carbon_footprint_fabrication=q(156, "kg"))
    O["d2"] = obj("Device", power=q(1, "W"), carbon_footprint_fabrication=q(30, "kg"), lifespan=q(3, "year"), fraction_of_usage_time=q(3.6, "hour/day"))
    O["up1"] = obj("UsagePattern", usage_journey=["ref", "uj1"], network=["ref", "n1"], country=["ref", "c1"], devices=["refs", ["d1"]],
                   hourly_usage_journey_starts=["h", [1000, 2000, 4137, 5000, 8000, 12000, 2000, 2513, 3000], "2025-01-01T00:00:00", "dimensionless"])
    O["up2"] = obj("UsagePattern", usage_journey=["ref", "uj2"], network=["ref", "n2"], country=["ref", "c2"], devices=["refs", ["d1", "d2"]],
                   hourly_usage_journey_starts=["h", [300, 0, 0, 500, 837, 100, 20], "2025-01-01T03:00:00", "dimensionless"])
    O["system"] = {"cls": "System", "params": {"usage_patterns": ["refs", ["up1", "up2"]]}}
    return {"objects": O, "system": "system"}


# ---- classification --------------------------------------------------------------------------------------------------
def jobs_of_up(spec, up):
    O = spec["objects"]
    out = []
    for s in O[O[up]["params"]["usage_journey"][1]]["params"]["uj_steps"][1]:
        out.extend(O[s]["params"]["jobs"][1])
    return out


def server_of_job(spec, j):
    O = spec["objects"]
    p = O[j]["params"]
    if "server" in p:
        return p["server"][1]
    return O[p["service"][1]]["params"]["server"][1]


def window_utc(spec, up):
    """approximate [first, last] hour of a pattern (naive local start shifted by nothing: used for disjointness only)"""
    h = spec["objects"][up]["params"]["hourly_usage_journey_starts"]
    a = datetime.fromisoformat(h[2])
    return a, a + timedelta(hours=len(h[1]) - 1)


def topo_classes(spec):
    O = spec["objects"]
    ups = O[spec["system"]]["params"]["usage_patterns"][1]
    tags = set()
    jobs_by_up = {up: jobs_of_up(spec, up) for up in ups}
    alljobs = set(j for js in jobs_by_up.values() for j in js)
    for j in alljobs:
        if sum(1 for up in ups if j in jobs_by_up[up]) >= 2:
            tags.add("job_shared_by_2_patterns")
    for n, o in O.items():
        if o["cls"] == "UsageJourneyStep":
            js = o["params"]["jobs"][1]
            if len(js) != len(set(js)):
                tags.add("job_repeated_in_step")
            if not js:
                tags.add("jobless_step")
            if o["params"]["user_time_spent"][1] == 0:
                tags.add("zero_duration_step")
        if o["cls"] == "UsageJourney":
            st = o["params"]["uj_steps"][1]
            if len(st) != len(set(st)):
                tags.add("step_repeated_in_journey")
    for up in ups:
        if not jobs_by_up[up]:
            tags.add("jobless_pattern")
    srv_ups = {}
    for up in ups:
        for j in jobs_by_up[up]:
            srv_ups.setdefault(server_of_job(spec, j), set()).add(up)
    if any(len(v) >= 2 for v in srv_ups.values()):
        tags.add("server_shared_by_patterns")
    for key, tag in (("network", "network_shared"), ("country", "country_shared"), ("usage_journey", "journey_shared")):
        vals = [O[up]["params"][key][1] for up in ups]
        if len(vals) != len(set(vals)):
            tags.add(tag)
    devs = [d for up in ups for d in O[up]["params"]["devices"][1]]
    if len(devs) != len(set(devs)):
        tags.add("device_shared")
    zones = {O[O[up]["params"]["country"][1]]["params"]["timezone"][1] for up in ups}
    if len(zones) > 1:
        tags.add("multi_timezone")
    if "cdst0" in O and "cdst1" in O:
        tags.add("same_span_dst_gap_pair")
    if "upi" in O:
        tags.add("island_pattern")
    if any(n.startswith("jd") for n in O):
        tags.add("draft_job")
    if any(o["cls"] == "Job" and o["params"].get("data_stored", ["q", 0])[1] < 0 for o in O.values()):
        tags.add("deleting_job")
    wins = sorted(window_utc(spec, up) for up in ups)
    for (a0, a1), (b0, b1) in zip(wins, wins[1:]):
        if b0 > a1 + timedelta(hours=14):
            tags.add("disjoint_windows")
        elif b0 != a0 or b1 != a1:
            tags.add("overlapping_windows")
    if len(ups) == 1 and not tags - {"zero_duration_step", "jobless_step"}:
        tags.add("single_chain")
    types = {O[s]["params"]["server_type"][1] for s in names_of(spec, SERVER_CLS) if "server_type" in O[s]["params"]}
    tags |= {"srv_" + t for t in types}
    return tags
