"""Fork pool: the parent imports the library once, workers are forked afterwards and pull case indices from a shared
counter. A case that exceeds its wall-clock watchdog or kills its worker is *inconclusive*, never a violation."""
import os, sys, json, time, signal, tempfile, shutil, traceback, multiprocessing as mp
import numpy as np


REACHED = set()      # (file, function) of the library executed by the workers of this process' runs (see reach.py)


class CaseTimeout(Exception):
    pass


def _alarm(signum, frame):
    raise CaseTimeout()


def jsonable(x):
    if isinstance(x, dict):
        return {str(k): jsonable(v) for k, v in x.items()}
    if isinstance(x, (list, tuple, set, frozenset)):
        return [jsonable(v) for v in x]
    if isinstance(x, (np.integer,)):
        return int(x)
    if isinstance(x, (np.floating,)):
        return float(x)
    if isinstance(x, np.ndarray):
        return [jsonable(v) for v in x.tolist()]
    if isinstance(x, (str, int, float, bool)) or x is None:
        return x
    return str(x)


def run_cases(cases, fn, nproc=None, per_case_timeout=180, wall_budget=3600, init=None):
    """returns list of records {"i", "status": ok|timeout|error|crashed|not_run, "result"} in case order"""
    nproc = nproc or min(16, os.cpu_count() or 4, max(1, len(cases)))
    if os.environ.get("VERIF_NPROC"):
        nproc = int(os.environ["VERIF_NPROC"])
    tmpdir = tempfile.mkdtemp(prefix="vfpool")
    counter = mp.Value("i", 0)
    deadline = time.time() + wall_budget
    records = {}

    def worker(wid):
        signal.signal(signal.SIGALRM, _alarm)
        if init:
            init()
        from . import reach, env
        reach.start(env.REPO)
        with open(os.path.join(tmpdir, f"{wid}.jsonl"), "w") as out:
            while True:
                with counter.get_lock():
                    i = counter.value
                    counter.value += 1
                if i >= len(cases) or time.time() > deadline:
                    break
                out.write(json.dumps({"start": i}) + "\n"); out.flush()
                t0 = time.time()
                signal.alarm(per_case_timeout)
                try:
                    r = fn(cases[i]); status = "ok"
                except CaseTimeout:
                    r, status = {}, "timeout"
                except BaseException:
                    r, status = {"harness_error": traceback.format_exc()[-3000:]}, "error"
                finally:
                    signal.alarm(0)
                out.write(json.dumps({"done": i, "status": status, "wall": round(time.time() - t0, 2), "result": jsonable(r)}) + "\n")
                out.write(json.dumps({"reach": reach.drain()}) + "\n")
                out.flush()
        os._exit(0)

    if nproc <= 1 or len(cases) <= 1:
        # in-process (replay, debugging)
        signal.signal(signal.SIGALRM, _alarm)
        from . import reach, env
        reach.start(env.REPO)
        for i, c in enumerate(cases):
            if time.time() > deadline:
                break
            signal.alarm(per_case_timeout)
            try:
                r = fn(c); status = "ok"
            except CaseTimeout:
                r, status = {}, "timeout"
            except Exception:
                r, status = {"harness_error": traceback.format_exc()[-3000:]}, "error"
            finally:
                signal.alarm(0)
            records[i] = {"i": i, "status": status, "result": jsonable(r)}
        REACHED.update(tuple(x) for x in reach.drain())
    else:
        pids = {}
        wid = 0
        respawns = 0
        sys.stdout.flush(); sys.stderr.flush()
        for _ in range(nproc):
            pid = os.fork()
            if pid == 0:
                worker(wid)
            pids[pid] = wid; wid += 1
        while pids:
            pid, st = os.wait()
            if pid not in pids:
                continue
            del pids[pid]
            if st != 0 and respawns < 2 * nproc and counter.value < len(cases) and time.time() < deadline:
                respawns += 1
                npid = os.fork()
                if npid == 0:
                    worker(wid)
                pids[npid] = wid; wid += 1
        for f in sorted(os.listdir(tmpdir)):
            started = None
            for line in open(os.path.join(tmpdir, f)):
                try:
                    d = json.loads(line)
                except Exception:
                    continue
                if "reach" in d:
                    REACHED.update(tuple(x) for x in d["reach"])
                elif "start" in d:
                    started = d["start"]
                    records.setdefault(started, {"i": started, "status": "crashed", "result": {}})
                elif "done" in d:
                    records[d["done"]] = {"i": d["done"], "status": d["status"], "wall": d.get("wall"), "result": d["result"]}
    shutil.rmtree(tmpdir, ignore_errors=True)
    return [records.get(i, {"i": i, "status": "not_run", "result": {}}) for i in range(len(cases))]
