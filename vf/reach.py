"""Function-level reach of the library under the workloads: a sys.monitoring PY_START callback (disabled per code object after
its first hit, so the cost is one event per function per process) records which functions of /repo/efootprint a worker executed.
The run reports, for the files a property is anchored in, how many of their functions the workload drove and which it did not:
a monitor that never reached the anchored code decides nothing (verdict inconclusive)."""
import sys, os, ast, re, glob

TOOL = 3
SEEN = set()          # (relative file, qualified name)
_started = False


def start(repo):
    global _started
    if _started or not hasattr(sys, "monitoring"):
        return
    mon = sys.monitoring
    try:
        mon.use_tool_id(TOOL, "vf-reach")
    except ValueError:
        return
    prefix = os.path.join(repo, "efootprint") + os.sep
    cut = len(repo.rstrip(os.sep)) + 1

    def on_start(code, offset):
        fn = code.co_filename
        if fn.startswith(prefix):
            SEEN.add((fn[cut:], code.co_qualname))
        return mon.DISABLE
    mon.register_callback(TOOL, mon.events.PY_START, on_start)
    mon.set_events(TOOL, mon.events.PY_START)
    _started = True


def drain():
    out = sorted(SEEN)
    SEEN.clear()
    return [list(x) for x in out]


def defined_functions(path):
    """qualified names of the functions and methods defined in a file (nested functions, lambdas and comprehensions excluded)"""
    out = []
    try:
        tree = ast.parse(open(path).read())
    except Exception:
        return out

    def walk(node, prefix):
        for ch in node.body:
            if isinstance(ch, (ast.FunctionDef, ast.AsyncFunctionDef)):
                out.append(prefix + ch.name)
            elif isinstance(ch, ast.ClassDef):
                walk(ch, prefix + ch.name + ".")
    walk(tree, "")
    return out


def anchored_files(repo, anchors):
    """relative paths of the library files named by a property's anchors (files list + mechanism locations)"""
    names = set(anchors.get("files") or [])
    for m in anchors.get("mechanism") or []:
        for tok in re.findall(r"[\w/*.]+\.py", m.get("where", "")):
            names.add(tok)
    out = set()
    for n in names:
        if "*" in n:
            for f in glob.glob(os.path.join(repo, n), recursive=True):
                out.add(os.path.relpath(f, repo))
        elif os.path.exists(os.path.join(repo, n)):
            out.add(n)
        else:
            for f in glob.glob(os.path.join(repo, "efootprint", "**", os.path.basename(n)), recursive=True):
                out.add(os.path.relpath(f, repo))
    return sorted(f for f in out if not os.path.basename(f).startswith("__init__"))


def report(repo, anchors, reached):
    reached = {(a, b) for a, b in reached}
    files = {}
    n_def = n_exec = 0
    for f in anchored_files(repo, anchors):
        defined = defined_functions(os.path.join(repo, f))
        if not defined:
            continue
        hit = [q for q in defined if (f, q) in reached]
        miss = [q for q in defined if (f, q) not in reached]
        files[f] = {"functions_defined": len(defined), "functions_executed": len(hit), "not_executed": miss[:60]}
        n_def += len(defined); n_exec += len(hit)
    return {"library_functions_executed": len(reached), "anchored_functions_defined": n_def, "anchored_functions_executed": n_exec,
            "anchored_files": files}
