"""Reference model of usage volumes (C03) and storage ledger / sizing (C04): plain dicts keyed by int64-ns timestamps,
Fractions for durations, no pandas alignment."""
import math, itertools
from fractions import Fraction
from . import env, gen
from .series import S, scal, base, add, scale, total, mismatch, maxabs

HOUR_NS = 3600 * 10**9
HOURS = {"s": Fraction(1, 3600), "min": Fraction(1, 60), "hour": Fraction(1), "day": Fraction(24), "year": Fraction(24 * 36525, 100),
         "second": Fraction(1, 3600), "minute": Fraction(1, 60)}


def hours(vs):
    """valuespec duration -> exact Fraction of hours"""
    return Fraction(str(vs[1])) * HOURS[vs[2]]


def int_candidates(fr, fn):
    """fn in (math.floor, math.ceil) of an exact Fraction; both neighbours when it sits within 1e-9 of an integer (the library
    computes the same quantity in floating point and may land on either side)"""
    r = round(fr)
    if abs(fr - r) < Fraction(1, 10**9):
        if fn is math.floor:
            return {r - 1, r} if r >= 1 else {r}
        return {r, r + 1} if r >= 1 else {max(r, 0), r + 1} if fr > 0 else {0}
    return {fn(fr)}


def shift(series, h):
    return {t + h * HOUR_NS: v for t, v in series.items()}


def occurrence_candidates(spec, job, up, starts):
    """all candidate occurrence series of `job` in pattern `up` given the UTC starts (one per admissible choice of floors)"""
    O = spec["objects"]
    delay = Fraction(0)
    positions = []     # one (candidate shifts, multiplicity) per step occurrence containing the job: the library computes the
    mult = 0           # delay once per step, so all appearances of the job inside one step share the same floor
    for st in O[O[up]["params"]["usage_journey"][1]]["params"]["uj_steps"][1]:
        k = sum(1 for j in O[st]["params"]["jobs"][1] if j == job)
        if k:
            positions.append((sorted(int_candidates(delay, math.floor)), k)); mult += k
        delay += hours(O[st]["params"]["user_time_spent"])
    if not positions:
        return None, 0
    out = []
    for combo in itertools.islice(itertools.product(*[p[0] for p in positions]), 4096):
        occ = {}
        for sh, (_, k) in zip(combo, positions):
            occ = add(occ, shift(starts, sh), float(k))
        out.append(occ)
    return out, mult


def avg_candidates(occ, d):
    """occurrence-hours: full hours + fractional rest (d exact Fraction of hours)"""
    if d == 0:
        return [{}]
    outs = []
    for full in sorted(int_candidates(d, math.floor)):
        rest = float(d - full)
        out = {}
        for h in range(full):
            out = add(out, shift(occ, h))
        if rest > 1e-12:
            out = add(out, shift(occ, full), rest)
        elif rest < -1e-12:
            continue
        outs.append(out)
    return outs


def data_candidates(occ, d, amount):
    outs = []
    for D in sorted(int_candidates(d, math.ceil)):
        if D <= 0:
            continue
        out = {}
        for h in range(D):
            out = add(out, shift(occ, h), amount / D)
        outs.append(out)
    return outs


def matches_any(pub, cands, rtol=1e-9):
    """None if the published series equals one of the candidates, else the mismatch against the first candidate"""
    first = None
    for c in cands:
        mm = mismatch(pub, c, rtol=rtol)
        if mm is None:
            return None
        if first is None:
            first = mm
    return first or ("no candidate", None, None)


def journey_duration(spec, uj):
    O = spec["objects"]
    return sum((hours(O[s]["params"]["user_time_spent"]) for s in O[uj]["params"]["uj_steps"][1]), Fraction(0))
