"""Runtime-monitoring harness for Boavizta/e-footprint (see /verif/DESIGN.md)."""
