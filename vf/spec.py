"""The spec: the harness' own record of the inputs of a model, and build(spec) -> live objects.

spec = {"objects": {name: {"cls": <class name>, "params": {param: valuespec}}}, "system": <name of the System object>}
valuespec =
  ["q", magnitude, unit]                 scalar quantity          -> SourceValue(magnitude * u(unit))
  ["h", [values], iso_start, unit]       hourly series            -> create_source_hourly_values_from_list
  ["s", text]                            categorical              -> SourceObject(text)
  ["tz", zone]                           time zone                -> SourceObject(pytz.timezone(zone))
  ["ref", name]                          link
  ["refs", [names]]                      list of links
  ["none"]                               None (optional fixed_nb_of_instances)
  ["str", text]                          plain string (Country.short_name)
"""
import copy, inspect, typing
from datetime import datetime
from . import env


def val(vs, objs=None):
    """valuespec -> library value"""
    E = env.load()
    k = vs[0]
    if k == "q":
        if len(vs) > 3 and isinstance(vs[3], dict) and "source" in vs[3]:
            return E.SourceValue(vs[1] * E.u(vs[2]), E.Source(vs[3]["source"][0], vs[3]["source"][1]))
        return E.SourceValue(vs[1] * E.u(vs[2]))
    if k == "h":
        return E.create_source_hourly_values_from_list(list(vs[1]), datetime.fromisoformat(vs[2]), E.u(vs[3]) if len(vs) > 3 else E.u.dimensionless)
    if k == "s":
        return E.SourceObject(vs[1])
    if k == "tz":
        return E.SourceObject(E.pytz.timezone(vs[1]))
    if k == "ref":
        return objs[vs[1]]
    if k == "refs":
        return [objs[n] for n in vs[1]]
    if k == "none":
        return None
    if k == "str":
        return vs[1]
    raise ValueError(vs)


def to_valuespec(v):
    """library default value -> valuespec"""
    E = env.load()
    if v is None or isinstance(v, E.EmptyExplainableObject):
        return ["none"]
    if isinstance(v, E.ExplainableQuantity):
        return ["q", float(v.value.magnitude), str(v.value.units)]
    if isinstance(v, E.ExplainableObject):
        if isinstance(v.value, str):
            return ["s", v.value]
        if getattr(v.value, "zone", None):
            return ["tz", v.value.zone]
    raise ValueError(f"no valuespec for {v!r}")


def refs_of(objspec):
    out = []
    for vs in objspec["params"].values():
        if vs[0] == "ref":
            out.append(vs[1])
        elif vs[0] == "refs":
            out.extend(vs[1])
    return out


def build_order(spec, order=None):
    """names in an order compatible with references; `order` (a permutation of names) is honoured where possible"""
    names = list(order) if order else list(spec["objects"])
    done, out = set(), []

    def visit(n, stack=()):
        if n in done:
            return
        assert n not in stack, f"reference cycle at {n}"
        for r in refs_of(spec["objects"][n]):
            visit(r, stack + (n,))
        done.add(n)
        out.append(n)
    for n in names:
        visit(n)
    return out


def build(spec, order=None, only=None):
    """Construct the live objects through the public constructors. Returns {name: object}."""
    E = env.load()
    objs = {}
    for n in build_order(spec, order):
        if only is not None and n not in only:
            continue
        o = spec["objects"][n]
        cls = E.CLS[o["cls"]] if o["cls"] in E.CLS else EXTRA_CLASSES[o["cls"]]
        kwargs = {p: val(vs, objs) for p, vs in o["params"].items()}
        objs[n] = cls(n, **kwargs)
        if o.get("rename"):
            # distinct objects may carry the same display name (two Countries.FRANCE() calls): nothing may be keyed by it
            objs[n].name = o["rename"]
    return objs


EXTRA_CLASSES = {}


def reachable(spec):
    """names of the objects that belong to the system: forward closure from the System plus services installed on
    reachable servers (what System.all_linked_objects reports)"""
    objs = spec["objects"]
    seen = set()
    todo = [spec["system"]]
    while todo:
        n = todo.pop()
        if n in seen:
            continue
        seen.add(n)
        todo.extend(refs_of(objs[n]))
    changed = True
    while changed:
        changed = False
        for n, o in objs.items():
            if n not in seen and o["cls"] in ("WebApplication", "VideoStreaming", "GenAIModel"):
                if o["params"]["server"][1] in seen:
                    seen.add(n); changed = True
    return seen


def prune(spec):
    """copy of the spec restricted to the objects of the system (well-formedness: nothing dangling)"""
    keep = set(reachable(spec))
    # "draft" jobs: attached to a server of the system (directly or through an installed service) but called by no step. They belong
    # to no usage pattern and contribute nothing, but the server lists them among its jobs, in the live model and in a rebuild alike
    O = spec["objects"]
    for n, o in O.items():
        if n not in keep and o["cls"] in JOB_CLS:
            host = o["params"].get("server") or o["params"].get("service")
            if host is not None and host[1] in keep:
                keep.add(n)
    out = {"objects": {n: copy.deepcopy(o) for n, o in spec["objects"].items() if n in keep}, "system": spec["system"]}
    return out


def names_of(spec, cls):
    if isinstance(cls, str):
        cls = (cls,)
    return [n for n, o in spec["objects"].items() if o["cls"] in cls]


SERVER_CLS = ("Server", "GPUServer", "BoaviztaCloudServer")
JOB_CLS = ("Job", "WebApplicationJob", "VideoStreamingJob", "GenAIJob", "GpuJob")
SERVICE_CLS = ("WebApplication", "VideoStreaming", "GenAIModel")


# ---- parameter tables from constructor signatures -------------------------------------------------------------------
def param_table(cls):
    """{param: kind} with kind in q / optq / h / s / ref / refs / str, from the constructor annotations"""
    E = env.load()
    out = {}
    for p, prm in inspect.signature(cls.__init__).parameters.items():
        if p in ("self", "name"):
            continue
        a = prm.annotation
        origin = typing.get_origin(a)
        if origin in (list, typing.List):
            out[p] = "refs"
        elif origin is not None:  # X | Y
            out[p] = "optq"
        elif a is str:
            out[p] = "str"
        elif isinstance(a, type) and issubclass(a, E.ExplainableHourlyQuantities):
            out[p] = "h"
        elif isinstance(a, type) and issubclass(a, E.ExplainableQuantity):
            out[p] = "q"
        elif isinstance(a, type) and issubclass(a, E.ModelingObject):
            out[p] = "ref"
        elif isinstance(a, type) and issubclass(a, E.ExplainableObject):
            out[p] = "s"
        else:
            out[p] = "?"
    return out


def default_params(cls_name):
    """valuespecs of cls.default_values()"""
    E = env.load()
    cls = E.CLS[cls_name]
    return {p: to_valuespec(v) for p, v in cls.default_values().items()}


def obj(cls_name, **params):
    base = default_params(cls_name)
    base.update(params)
    return {"cls": cls_name, "params": base}


def q(m, unit):
    return ["q", m, unit]
