"""Execution environment: import the library from the working tree, silence it, seed identifiers."""
import os, sys, time, random, logging, types

REPO = os.environ.get("VERIF_REPO", "/repo")
VERIF = os.path.dirname(os.path.dirname(os.path.abspath(__file__)))
os.environ.setdefault("PYTHONDONTWRITEBYTECODE", "1")
os.environ.setdefault("MPLBACKEND", "Agg")
sys.dont_write_bytecode = True
if REPO not in sys.path[:1]:
    sys.path.insert(0, REPO)

_E = None


class _UuidShim:
    """Stands in for the uuid module inside modeling_object: uuid4() drawn from a seeded RNG."""
    def __init__(self):
        self.rng = random.Random(0)

    def seed(self, s):
        self.rng = random.Random(s)

    def uuid4(self):
        import uuid as _uuid
        return _uuid.UUID(int=self.rng.getrandbits(128), version=4)


UUID = _UuidShim()


def load():
    """Import efootprint (once per process) and return a namespace with the names the harness uses."""
    global _E
    if _E is not None:
        return _E
    t0 = time.time()
    assert "pytest" not in sys.modules, "pytest must never be imported in a checking process (boaviztapi)"
    from efootprint.logger import logger
    logger.setLevel(logging.ERROR)
    for h in logger.handlers:
        h.setLevel(logging.ERROR)
    logging.getLogger("matplotlib").setLevel(logging.ERROR)
    import warnings
    warnings.filterwarnings("ignore")
    E = types.SimpleNamespace()
    import numpy as np, pandas as pd, pint, pint_pandas, pytz
    E.np, E.pd, E.pint, E.pint_pandas, E.pytz = np, pd, pint, pint_pandas, pytz
    from efootprint.constants.units import u
    E.u = u
    import efootprint
    E.efootprint = efootprint
    from efootprint.abstract_modeling_classes import (explainable_objects, explainable_object_base_class,
        explainable_object_dict, modeling_update, modeling_object, source_objects, list_linked_to_modeling_obj,
        object_linked_to_modeling_obj, contextual_modeling_object_attribute)
    E.m_explainable_objects = explainable_objects
    E.m_base = explainable_object_base_class
    E.m_dict = explainable_object_dict
    E.m_update = modeling_update
    E.m_modeling_object = modeling_object
    E.m_list = list_linked_to_modeling_obj
    E.m_linked = object_linked_to_modeling_obj
    E.m_ctx = contextual_modeling_object_attribute
    E.EmptyExplainableObject = explainable_objects.EmptyExplainableObject
    E.ExplainableQuantity = explainable_objects.ExplainableQuantity
    E.ExplainableHourlyQuantities = explainable_objects.ExplainableHourlyQuantities
    E.ExplainableObject = explainable_object_base_class.ExplainableObject
    E.Source = explainable_object_base_class.Source
    E.ExplainableObjectDict = explainable_object_dict.ExplainableObjectDict
    E.ModelingUpdate = modeling_update.ModelingUpdate
    E.ModelingObject = modeling_object.ModelingObject
    E.ListLinkedToModelingObj = list_linked_to_modeling_obj.ListLinkedToModelingObj
    E.ObjectLinkedToModelingObj = object_linked_to_modeling_obj.ObjectLinkedToModelingObj
    E.ContextualModelingObjectAttribute = contextual_modeling_object_attribute.ContextualModelingObjectAttribute
    E.SourceValue, E.SourceObject, E.SourceHourlyValues = (
        source_objects.SourceValue, source_objects.SourceObject, source_objects.SourceHourlyValues)
    from efootprint.constants.sources import Sources
    E.Sources = Sources
    from efootprint.builders import time_builders
    E.time_builders = time_builders
    E.create_source_hourly_values_from_list = time_builders.create_source_hourly_values_from_list
    E.create_hourly_usage_df_from_list = time_builders.create_hourly_usage_df_from_list
    from efootprint.core import all_classes_in_order as aco
    E.aco = aco
    E.ALL_CLASSES = list(aco.ALL_EFOOTPRINT_CLASSES)
    E.CLS = {c.__name__: c for c in aco.ALL_EFOOTPRINT_CLASSES}
    from efootprint.core.hardware.server_base import ServerBase, ServerTypes
    from efootprint.core.usage.job import JobBase
    from efootprint.builders.services.service_base_class import Service
    E.ServerBase, E.ServerTypes, E.JobBase, E.Service = ServerBase, ServerTypes, JobBase, Service
    for n, c in E.CLS.items():
        setattr(E, n, c)
    from efootprint.api_utils.json_to_system import json_to_system
    from efootprint.api_utils.system_to_json import system_to_json
    E.json_to_system, E.system_to_json = json_to_system, system_to_json
    from efootprint.core.usage import compute_nb_occurrences_in_parallel as cnp
    E.m_cnp = cnp
    from efootprint.core.usage import job as m_job, usage_pattern as m_up
    E.m_job, E.m_up = m_job, m_up
    # identifier seeding: modeling_object draws ids from uuid.uuid4()
    modeling_object.uuid = UUID
    E.import_s = round(time.time() - t0, 2)
    _E = E
    return E


def seed_ids(s):
    UUID.seed(s)
