"""Edit histories on live systems: the shared workload of the history-quantified properties."""
import copy, random, traceback
from . import env, gen, edits, observe
from .spec import build, prune


class Hist:
    """A live system + the spec that records its inputs. step() applies one random edit to both."""

    def __init__(self, rnd, tier="quick", spec=None, id_seed=None, **genkw):
        self.E = env.load()
        self.rnd = rnd
        self.tier = tier
        self.spec = spec if spec is not None else gen.rand_spec(rnd, tier, **genkw)
        env.seed_ids(id_seed if id_seed is not None else rnd.getrandbits(32))
        self.objs = None
        self.log = []
        self.build_error = None
        try:
            self.objs = build(self.spec)
            self.system = self.objs[self.spec["system"]]
        except Exception as e:
            self.build_error = f"{type(e).__name__}: {e}"[:300]

    def propose(self, mix=None):
        if mix is None and self.objs is not None and self.rnd.random() < 0.07:
            e = edits.fix_count_edit(self.rnd, self.spec, self.objs)
            if e is not None:
                return e
        return edits.rand_edit(self.rnd, self.spec, mix)

    def spec_after(self, edit):
        s2 = copy.deepcopy(self.spec)
        edits.apply_spec(edit, s2)
        return s2

    def reference(self, spec=None):
        """fresh system built from the (pruned) spec; returns (objs, error)"""
        sp = prune(spec if spec is not None else self.spec)
        saved = env.UUID.rng.getstate()
        try:
            o = build(sp)
            return o, None
        except Exception as e:
            return None, f"{type(e).__name__}: {e}"[:300]
        finally:
            env.UUID.rng.setstate(saved)

    def apply(self, edit, spec_after=None):
        """apply to the live system; on success commit the spec. returns None or the exception"""
        if edit["op"] == "delete_pattern":
            # self_delete() is not transactional (a recomputation that fails after the links are gone leaves a half-deleted object, outside
            # what the properties state): the composite edit is only issued when the model without the pattern is a valid one
            ref, err = self.reference(spec_after if spec_after is not None else self.spec_after(edit))
            if ref is None:
                self.log.append({"edit": edits.describe(edit), "result": "not issued: the model without the pattern is refused (" + err[:80] + ")"})
                return ValueError("not issued: " + err[:120])
        try:
            edits.apply_live(edit, self.objs)
        except Exception as e:
            self.log.append({"edit": edits.describe(edit), "result": f"raised {type(e).__name__}: {str(e)[:160]}"})
            return e
        self.spec = spec_after if spec_after is not None else self.spec_after(edit)
        if not edits.well_formed(self.spec):
            raise RuntimeError("harness: generated an edit that leaves a usage pattern outside the system linked to it: " + edits.describe(edit))
        self.log.append({"edit": edits.describe(edit), "result": "ok"})
        return None

    def summary(self):
        O = self.spec["objects"]
        counts = {}
        for o in O.values():
            counts[o["cls"]] = counts.get(o["cls"], 0) + 1
        return {"objects": counts, "classes": sorted(gen.topo_classes(self.spec)), "history": self.log[-12:]}


def case_rng(seed, idx, salt=""):
    return random.Random(f"{salt}-{seed}-{idx}")
