"""The edit language (DESIGN.md §2.4): JSON-able edits applied both to the live model (public API) and to the spec."""
import copy
from . import env
from .spec import val, names_of, SERVER_CLS, JOB_CLS
from . import gen

# numeric parameters that histories edit, per class
NUM = {
    "Storage": ["power_per_storage_capacity", "idle_power", "storage_capacity", "data_replication_factor", "data_storage_duration",
                "base_storage_need", "carbon_footprint_fabrication_per_storage_capacity", "lifespan"],
    "Server": ["carbon_footprint_fabrication", "power", "lifespan", "idle_power", "ram", "compute", "power_usage_effectiveness",
               "average_carbon_intensity", "server_utilization_rate", "base_ram_consumption", "base_compute_consumption"],
    "Job": ["data_transferred", "data_stored", "request_duration", "compute_needed", "ram_needed"],
    "UsageJourneyStep": ["user_time_spent"],
    "Network": ["bandwidth_energy_intensity"],
    "Country": ["average_carbon_intensity"],
    "Device": ["carbon_footprint_fabrication", "power", "lifespan", "fraction_of_usage_time"],
}
FACTORS = [0.5, 2, 1.37, 10, 3600, 0.001]
CAP_HOURS = {"request_duration": 6.0, "user_time_spent": 12.0, "video_duration": 6.0}
ZERO_OK = {"data_transferred", "data_stored", "user_time_spent", "base_ram_consumption", "base_compute_consumption",
           "idle_power", "base_storage_need"}
ALT_UNITS = {"kB": ("MB", 1e-3), "MB": ("kB", 1e3), "GB": ("MB", 1e3), "TB": ("GB", 1e3), "s": ("min", 1 / 60), "min": ("s", 60.0),
             "hour": ("min", 60.0), "year": ("day", 365.25), "W": ("kW", 1e-3), "kg": ("g", 1e3), "g/kWh": ("kg/MWh", 1.0)}
LIST_ATTRS = {"UsageJourney": ("uj_steps", "UsageJourneyStep"), "UsageJourneyStep": ("jobs", "Job"), "UsagePattern": ("devices", "Device")}


def hours_of(vs):
    E = env.load()
    return float((vs[1] * E.u(vs[2])).to("hour").magnitude)


# ---- application -------------------------------------------------------------------------------------------------------
def apply_spec(edit, spec):
    O = spec["objects"]
    if edit["op"] == "set":
        O[edit["obj"]]["params"][edit["attr"]] = copy.deepcopy(edit["value"])
    elif edit["op"] == "group":
        for c in edit["changes"]:
            O[c["obj"]]["params"][c["attr"]] = copy.deepcopy(c["value"])
    elif edit["op"] == "list":
        l = O[edit["obj"]]["params"][edit["attr"]][1]
        list_op(l, edit["method"], edit["args"])
    elif edit["op"] == "simulate":
        pass            # a dated what-if leaves the baseline, hence the record of the inputs, unchanged
    elif edit["op"] == "delete_pattern":
        ups = O[spec["system"]]["params"]["usage_patterns"][1]
        ups.remove(edit["obj"])
        del O[edit["obj"]]
    elif edit["op"] == "fresh_storage":
        O[edit["new"]] = copy.deepcopy(edit["storage"])
        O[edit["obj"]]["params"]["storage"] = ["ref", edit["new"]]
    else:
        raise ValueError(edit)


def list_op(l, method, args, conv=lambda x: x, owner=None, attr=None):
    """apply a list operation to l (a plain list of names, or the live list when conv/owner are given)"""
    if method == "append": l.append(conv(args[0]))
    elif method == "insert": l.insert(args[0], conv(args[1]))
    elif method == "extend": l.extend([conv(x) for x in args[0]])
    elif method == "iadd":
        if owner is not None:
            cur = getattr(owner, attr); cur += [conv(x) for x in args[0]]; setattr(owner, attr, cur)
        else:
            l += [conv(x) for x in args[0]]
    elif method == "imul":
        if owner is not None:
            cur = getattr(owner, attr); cur *= args[0]; setattr(owner, attr, cur)
        else:
            l *= args[0]
    elif method == "pop": l.pop(*args)
    elif method == "remove": l.remove(conv(args[0]))
    elif method == "remove_wrapper":
        if owner is not None:
            w = next(x for x in l if x.name == args[0]); l.remove(w)
        else:
            l.remove(args[0])
    elif method == "delitem": del l[args[0]]
    elif method == "delslice": del l[args[0]:args[1]]
    elif method == "setitem": l[args[0]] = conv(args[1])
    elif method == "clear": l.clear()
    else:
        raise ValueError(method)


def apply_live(edit, objs):
    E = env.load()
    def live_val(vs):
        # clearing an optional input on a live model is done with an empty value (assigning None raises in the library)
        return E.EmptyExplainableObject() if vs[0] == "none" else val(vs, objs)
    if edit["op"] == "set":
        setattr(objs[edit["obj"]], edit["attr"], live_val(edit["value"]))
    elif edit["op"] == "group":
        changes = [[getattr(objs[c["obj"]], c["attr"]), live_val(c["value"])] for c in edit["changes"]]
        E.ModelingUpdate(changes)
    elif edit["op"] == "list":
        owner = objs[edit["obj"]]
        list_op(getattr(owner, edit["attr"]), edit["method"], edit["args"], conv=lambda n: objs[n], owner=owner, attr=edit["attr"])
    elif edit["op"] == "simulate":
        run_simulation(edit, objs)
    elif edit["op"] == "delete_pattern":
        # the pattern leaves the system and is deleted: the two public calls a user makes, one after the other
        sysm = _system_of(objs)
        up = objs[edit["obj"]]
        sysm.usage_patterns = [x for x in sysm.usage_patterns if x.name != edit["obj"]]
        up.self_delete()
        del objs[edit["obj"]]
    elif edit["op"] == "fresh_storage":
        from .spec import EXTRA_CLASSES
        o = edit["storage"]
        objs[edit["new"]] = E.CLS[o["cls"]](edit["new"], **{p: val(vs, objs) for p, vs in o["params"].items()})
        objs[edit["obj"]].storage = objs[edit["new"]]
    else:
        raise ValueError(edit)


def _system_of(objs):
    E = env.load()
    return next(o for o in objs.values() if isinstance(getattr(o, "_value", o), E.System))


def run_simulation(edit, objs):
    """a dated what-if run in the middle of a history (with a few set / reset toggles): whatever it does - succeed, be refused - the
    baseline is as before, so the history goes on as if nothing had happened"""
    E = env.load()
    from datetime import timedelta
    sysm = _system_of(objs)
    idxs = [up.utc_hourly_usage_journey_starts.value.index for up in sysm.usage_patterns
            if not isinstance(up.utc_hourly_usage_journey_starts, E.EmptyExplainableObject)]
    if not idxs:
        return
    first = min(i.min() for i in idxs).to_pydatetime(); last = max(i.max() for i in idxs).to_pydatetime()
    span = max(0, int((last - first).total_seconds() // 3600))
    date = first + timedelta(hours=int(round(edit["date_frac"] * span)))
    try:
        changes = [[getattr(objs[c["obj"]], c["attr"]), val(c["value"], objs)] for c in edit["changes"] if c["obj"] in objs]
        sim = E.ModelingUpdate(changes, date)
    except Exception:
        return
    for _ in range(edit.get("toggles", 0)):
        sim.set_updated_values()
        sim.reset_values()


def inverse(edit, spec_before):
    O = spec_before["objects"]
    if edit["op"] == "set":
        return {"op": "set", "obj": edit["obj"], "attr": edit["attr"], "value": copy.deepcopy(O[edit["obj"]]["params"].get(edit["attr"], ["none"]))}
    if edit["op"] == "group":
        return {"op": "group", "changes": [{"obj": c["obj"], "attr": c["attr"], "value": copy.deepcopy(O[c["obj"]]["params"].get(c["attr"], ["none"]))}
                                           for c in edit["changes"]]}
    if edit["op"] == "list":
        return {"op": "set", "obj": edit["obj"], "attr": edit["attr"], "value": copy.deepcopy(O[edit["obj"]]["params"][edit["attr"]])}
    return None       # simulate (nothing to undo), delete_pattern / fresh_storage (not undone)


def describe(edit):
    if edit["op"] == "simulate":
        return f"simulation(date at {edit['date_frac']:.2f} of the period, toggles={edit.get('toggles', 0)}: " + "; ".join(
            f"{c['obj']}.{c['attr']}={c['value'][1:] if c['value'][0] != 'h' else 'h'}" for c in edit["changes"]) + ")"
    if edit["op"] == "delete_pattern":
        return f"system.usage_patterns without {edit['obj']}; {edit['obj']}.self_delete()"
    if edit["op"] == "fresh_storage":
        return f"{edit['obj']}.storage = new Storage {edit['new']}"
    if edit["op"] == "set":
        v = edit["value"]
        vs = f"h[{len(v[1])}]" if v[0] == "h" else v[1:]
        return f"{edit['obj']}.{edit['attr']} = {vs}"
    if edit["op"] == "group":
        return "group(" + "; ".join(f"{c['obj']}.{c['attr']}={c['value'][1:] if c['value'][0] != 'h' else 'h'}" for c in edit["changes"]) + ")"
    return f"{edit['obj']}.{edit['attr']}.{edit['method']}({edit['args']})"


# ---- generation -------------------------------------------------------------------------------------------------------
def num_edit(rnd, spec, targets=None):
    O = spec["objects"]
    # classes of the table above use the listed parameters; any other class (builders, GPU server) every quantity parameter
    cands = [(n, p) for n, o in O.items() for p in (NUM[o["cls"]] if o["cls"] in NUM else [k for k, v in o["params"].items() if v[0] == "q"])
             if p in o["params"] and o["params"][p][0] == "q"]
    if targets:
        cands = [c for c in cands if c in targets] or cands
    n, p = rnd.choice(cands)
    old = O[n]["params"][p]
    mode = rnd.random()
    if mode < 0.08 and p in ZERO_OK:
        new = ["q", 0, old[2]]
    elif mode < 0.16 and old[2] in ALT_UNITS:
        u2, f = ALT_UNITS[old[2]]
        new = ["q", old[1] * f, u2]
    else:
        # builder parameters feed derived durations (tokens x latency, video length): moderate factors only, so that histories do not
        # wander into requests lasting thousands of hours (thousands of hour-shift terms per job)
        ks = list(FACTORS if O[n]["cls"] in NUM else [0.5, 2, 1.37]); rnd.shuffle(ks)
        new = None
        for k in ks:
            cand = ["q", old[1] * k if old[1] != 0 else rnd.choice([1.37, 0.37]), old[2]]
            if p in CAP_HOURS and hours_of(cand) > CAP_HOURS[p]:
                continue
            if p == "server_utilization_rate" and not (0.05 <= cand[1] <= 1):
                continue
            if p == "data_replication_factor" and cand[1] > 30:
                continue
            new = cand; break
        if new is None:
            new = ["q", old[1] * 0.5, old[2]]
    return {"op": "set", "obj": n, "attr": p, "value": new}


def well_formed(spec):
    """the library has no notion of a usage pattern that is outside the system but still linked to it: such a pattern keeps feeding
    the jobs, servers, storages and networks it shares with the system. The input space of the harness excludes it: every usage
    pattern outside the system shares nothing but countries and devices with the objects of the system"""
    O = spec["objects"]
    inside = set(O[spec["system"]]["params"]["usage_patterns"][1])
    outside = [u for u, o in O.items() if o["cls"] == "UsagePattern" and u not in inside]
    if not outside:
        return True
    from .spec import reachable, refs_of
    reach = reachable(spec)
    for u in outside:
        seen, todo = set(), [u]
        while todo:
            n = todo.pop()
            if n in seen:
                continue
            seen.add(n)
            todo.extend(refs_of(O[n]))
        if any(n in reach and O[n]["cls"] not in ("Country", "Device") for n in seen):
            return False
    return True


def admissible(edit, spec):
    """the spec stays well formed under the edit"""
    O = spec["objects"]
    if edit is None:
        return True
    touches_system = any(c.get("obj") == spec["system"] for c in (edit.get("changes") or [edit]))
    if not touches_system and all(u in O[spec["system"]]["params"]["usage_patterns"][1] for u, o in O.items() if o["cls"] == "UsagePattern"):
        return True
    s2 = copy.deepcopy(spec)
    try:
        apply_spec(edit, s2)
    except Exception:
        return True      # hostile list operations that the plain list refuses too: not a structural change
    return well_formed(s2)


def keeps_well_formed(fn):
    def g(rnd, spec, *a, **k):
        for _ in range(6):
            e = fn(rnd, spec, *a, **k)
            if e is None or admissible(e, spec):
                return e
        return None
    g.__name__ = fn.__name__
    return g


def can_remove_up(spec, up, remaining):
    """a pattern may leave the system only if it shares no job, step, journey, server, storage or network with the remaining ones"""
    s2 = {"objects": dict(spec["objects"]), "system": spec["system"]}
    s2["objects"][spec["system"]] = {"cls": "System", "params": {"usage_patterns": ["refs", list(remaining)]}}
    return well_formed(s2)


@keeps_well_formed
def link_edit(rnd, spec):
    O = spec["objects"]
    kind = rnd.choice(["job.server", "up.uj", "up.network", "up.country", "server.storage"])
    if kind == "job.server" and names_of(spec, "Job"):
        j = rnd.choice(names_of(spec, "Job")); s = rnd.choice(names_of(spec, "Server"))
        return {"op": "set", "obj": j, "attr": "server", "value": ["ref", s]}
    if kind == "server.storage":
        return None   # handled by histories that create a fresh storage (see fresh_storage_edit)
    ups = names_of(spec, "UsagePattern")
    up = rnd.choice(ups)
    attr, cls = {"up.uj": ("usage_journey", "UsageJourney"), "up.network": ("network", "Network"), "up.country": ("country", "Country"),
                 "job.server": ("network", "Network")}[kind]
    return {"op": "set", "obj": up, "attr": attr, "value": ["ref", rnd.choice(names_of(spec, cls))]}


@keeps_well_formed
def list_assign_edit(rnd, spec):
    O = spec["objects"]
    cls = rnd.choice(["UsageJourney", "UsageJourneyStep", "UsagePattern", "System"])
    if cls == "System":
        sysn = spec["system"]; cur = O[sysn]["params"]["usage_patterns"][1]
        allups = names_of(spec, "UsagePattern")
        new = list(cur); rnd.shuffle(new)
        # maybe drop one that can be dropped, maybe re-add one that was dropped
        outside = [u for u in allups if u not in cur]
        r = rnd.random()
        if r < 0.4 and len(new) > 1:
            cand = [u for u in new if can_remove_up(spec, u, [x for x in new if x != u])]
            if cand:
                new.remove(rnd.choice(cand))
        elif r < 0.7 and outside:
            new.append(rnd.choice(outside))
        return {"op": "set", "obj": sysn, "attr": "usage_patterns", "value": ["refs", new]}
    objs = names_of(spec, cls)
    if not objs:
        return None
    n = rnd.choice(objs); attr, ecls = LIST_ATTRS[cls]
    pool = names_of(spec, ecls)
    if not pool:
        return None
    if cls == "UsagePattern":
        new = rnd.sample(pool, rnd.randint(1, len(pool)))
    elif cls == "UsageJourney":
        new = [rnd.choice(pool) for _ in range(rnd.randint(1, 3))]
    else:
        new = [rnd.choice(pool) for _ in range(rnd.randint(0, 3))]
    return {"op": "set", "obj": n, "attr": attr, "value": ["refs", new]}


MUTATORS = ["append", "insert", "extend", "iadd", "imul", "pop", "remove", "remove_wrapper", "delitem", "delslice", "setitem", "clear",
            "noop_iadd", "noop_extend", "noop_imul", "noop_setitem"]


@keeps_well_formed
def list_mut_edit(rnd, spec, methods=None, classes=("UsageJourney", "UsageJourneyStep", "UsagePattern")):
    O = spec["objects"]
    cls = rnd.choice(classes)
    objs = names_of(spec, cls)
    if not objs:
        return None
    n = rnd.choice(objs); attr, ecls = LIST_ATTRS[cls]
    pool = names_of(spec, ecls)
    if not pool:
        return None
    cur = O[n]["params"][attr][1]
    m = rnd.choice(methods or MUTATORS)
    x = rnd.choice(pool)
    min_len = 0 if cls == "UsageJourneyStep" else 1     # journeys keep >= 1 step, patterns >= 1 device
    if cls == "UsagePattern" and m in ("append", "insert", "extend", "iadd", "imul", "setitem") :
        notin = [d for d in pool if d not in cur]       # devices: no duplicates
        if not notin or m == "imul":
            m = "noop_iadd"
        else:
            x = rnd.choice(notin)
    if m == "append": args = [x]
    elif m == "insert": args = [rnd.randint(0, len(cur)), x]
    elif m == "extend": args = [[x] if cls == "UsagePattern" else [x, rnd.choice(pool)]]
    elif m == "iadd": args = [[x]]
    elif m == "imul":
        k = rnd.choice([2, 1, 0]) if len(cur) <= 2 else rnd.choice([1, 0])
        if k == 0 and min_len > 0: k = 1
        args = [k]
    elif m in ("pop", "delitem", "setitem", "remove", "remove_wrapper", "delslice", "clear"):
        if m == "clear":
            if min_len > 0: return None
            args = []
        elif not cur or (len(cur) <= min_len and m != "setitem"):
            return None
        elif m == "pop": args = rnd.choice([[], [0], [len(cur) - 1]])
        elif m == "delitem": args = [rnd.randrange(len(cur))]
        elif m == "setitem": args = [rnd.randrange(len(cur)), x]
        elif m in ("remove", "remove_wrapper"): args = [rnd.choice(cur)]
        elif m == "delslice":
            a = rnd.randrange(len(cur)); b = rnd.randint(a, len(cur))
            if len(cur) - (b - a) < min_len: return None
            args = [a, b]
    elif m == "noop_iadd": m, args = "iadd", [[]]
    elif m == "noop_extend": m, args = "extend", [[]]
    elif m == "noop_imul": m, args = "imul", [1]
    elif m == "noop_setitem":
        if not cur: return None
        i = rnd.randrange(len(cur)); m, args = "setitem", [i, cur[i]]
    return {"op": "list", "obj": n, "attr": attr, "method": m, "args": args}


def starts_edit(rnd, spec):
    O = spec["objects"]
    up = rnd.choice(names_of(spec, "UsagePattern"))
    h = O[up]["params"]["hourly_usage_journey_starts"]
    new = [rnd.choice(gen.START_VALUES) for _ in h[1]]
    return {"op": "set", "obj": up, "attr": "hourly_usage_journey_starts", "value": ["h", new, h[2], h[3]]}


def server_type_edit(rnd, spec):
    if not names_of(spec, "Server"):
        return None
    s = rnd.choice(names_of(spec, "Server"))
    return {"op": "set", "obj": s, "attr": "server_type", "value": ["s", rnd.choice(["autoscaling", "on-premise", "serverless"])]}


@keeps_well_formed
def group_edit(rnd, spec):
    changes, seen = [], set()
    for _ in range(rnd.randint(2, 3)):
        e = rnd.choice([num_edit, num_edit, link_edit, list_assign_edit, starts_edit])(rnd, spec)
        if e is None or e["op"] != "set" or (e["obj"], e["attr"]) in seen or e["obj"] == spec["system"]:
            continue
        seen.add((e["obj"], e["attr"]))
        changes.append({"obj": e["obj"], "attr": e["attr"], "value": e["value"]})
    if len(changes) < 2:
        return None
    return {"op": "group", "changes": changes}


def step_time_edit(rnd, spec):
    """the time spent on a step moved across whole-hour boundaries (the delay of the jobs of the following steps is floored to hours)"""
    O = spec["objects"]
    steps = names_of(spec, "UsageJourneyStep")
    if not steps:
        return None
    early = [st for uj in names_of(spec, "UsageJourney") for st in O[uj]["params"]["uj_steps"][1][:-1]]
    st = rnd.choice(early or steps)
    old = O[st]["params"]["user_time_spent"]
    cands = [c for c in ([0, "s"], [10, "min"], [59, "min"], [61, "min"], [90, "min"], [130, "min"], [3, "hour"], [20, "min"]) if c != old[1:]]
    m, u = rnd.choice(cands)
    return {"op": "set", "obj": st, "attr": "user_time_spent", "value": ["q", m, u]}


def storage_base_edit(rnd, spec):
    """the initial need of a storage set to another non-zero value (an input that is ADDED to a series: applying it twice must not add it twice)"""
    O = spec["objects"]
    sts = names_of(spec, "Storage")
    if not sts:
        return None
    st = rnd.choice(sts)
    old = O[st]["params"]["base_storage_need"]
    m = rnd.choice([x for x in (1.37, 2.37, 5.37, 8.37) if x != old[1]])
    if old[1] > 20:       # a storage that lives on its initial need (deleting job): stay in its order of magnitude
        m = old[1] * rnd.choice([1.37, 0.73])
    return {"op": "set", "obj": st, "attr": "base_storage_need", "value": ["q", m, "TB"]}


def simulate_edit(rnd, spec):
    """a dated what-if (most of them containing a link change, so that untouched ancestors are replaced by copies and put back)"""
    changes, seen = [], set()
    gens = [link_edit, list_assign_edit, num_edit, num_edit, starts_edit] if rnd.random() < 0.75 else [num_edit, num_edit, starts_edit]
    for g in gens[:rnd.randint(1, 3)] if gens[0] is link_edit else rnd.sample(gens, rnd.randint(1, 2)):
        e = g(rnd, spec)
        if e is None or e["op"] != "set" or (e["obj"], e["attr"]) in seen or e["obj"] == spec["system"]:
            continue
        seen.add((e["obj"], e["attr"]))
        changes.append({"obj": e["obj"], "attr": e["attr"], "value": e["value"]})
    if not changes:
        return None
    return {"op": "simulate", "changes": changes, "date_frac": rnd.choice([0.0, 0.0, 1.0, rnd.random(), rnd.random()]), "toggles": rnd.choice([0, 0, 1, 2])}


def delete_pattern_edit(rnd, spec):
    """a pattern leaves the system and is deleted (its journey, jobs, network may stay shared with the remaining patterns)"""
    O = spec["objects"]
    ups = O[spec["system"]]["params"]["usage_patterns"][1]
    if len(ups) < 2 or len(set(ups)) != len(ups):
        return None
    up = rnd.choice(ups)
    e = {"op": "delete_pattern", "obj": up}
    return e if admissible(e, spec) else None


def fresh_storage_edit(rnd, spec):
    """a server gets a brand-new storage (its previous one stays behind, unused)"""
    O = spec["objects"]
    servers = [n for n in names_of(spec, "Server")]
    if not servers:
        return None
    s = rnd.choice(servers)
    k = 0
    while f"stn{k}" in O:
        k += 1
    from .spec import obj
    st = obj("Storage", data_storage_duration=["q", rnd.choice([5, 2]), "year"], storage_capacity=["q", rnd.choice([1.13, 2.37]), "TB"],
             base_storage_need=["q", rnd.choice([0, 1.37]), "TB"])
    return {"op": "fresh_storage", "obj": s, "new": f"stn{k}", "storage": st}


@keeps_well_formed
def same_target_group_edit(rnd, spec):
    """one grouped update that re-points two or three links to the SAME target (two jobs to one server, two patterns to one journey /
    network / country): the target gets several new referrers within a single update"""
    O = spec["objects"]
    kinds = []
    if len(names_of(spec, "Job")) >= 2 and len(names_of(spec, "Server")) >= 2:
        kinds.append(("Job", "server", "Server"))
    if len(names_of(spec, "UsagePattern")) >= 2:
        kinds += [("UsagePattern", "usage_journey", "UsageJourney"), ("UsagePattern", "network", "Network"), ("UsagePattern", "country", "Country")]
    rnd.shuffle(kinds)
    for cls, attr, tcls in kinds:
        for target in rnd.sample(names_of(spec, tcls), len(names_of(spec, tcls))):
            movers = [n for n in names_of(spec, cls) if O[n]["params"][attr][1] != target]
            if len(movers) >= 2:
                chosen = rnd.sample(movers, min(len(movers), rnd.choice([2, 2, 3])))
                return {"op": "group", "changes": [{"obj": n, "attr": attr, "value": ["ref", target]} for n in chosen]}
    return None


@keeps_well_formed
def fill_empty_step_edit(rnd, spec):
    """give its first job(s) to a step whose job list is empty, preferably a job not yet used by the patterns of that step"""
    O = spec["objects"]
    empties = [n for n in names_of(spec, "UsageJourneyStep") if not O[n]["params"]["jobs"][1]]
    jobs = names_of(spec, "Job")
    if not empties or not jobs:
        return None
    allups = names_of(spec, "UsagePattern")
    ups_of = lambda st_: [u for u in allups if st_ in O[O[u]["params"]["usage_journey"][1]]["params"]["uj_steps"][1]]
    # prefer an empty step whose patterns already have other jobs (otherwise the edit falls under known finding F3)
    good = [e for e in empties if ups_of(e) and all(gen.jobs_of_up(spec, u) for u in ups_of(e))]
    st = rnd.choice(good or empties)
    ups = ups_of(st)
    nets = {O[u]["params"]["network"][1] for u in ups}
    nets_of_job = lambda j_: {O[u]["params"]["network"][1] for u in allups if j_ in gen.jobs_of_up(spec, u)}
    # prefer a job that is not yet on the network(s) of the step's patterns
    fresh = [j for j in jobs if not (nets_of_job(j) & nets)] or [j for j in jobs if j not in {x for u in ups for x in gen.jobs_of_up(spec, u)}] or jobs
    j = rnd.choice(fresh)
    m = rnd.choice(["append", "iadd", "assign", "insert"])
    if m == "assign":
        return {"op": "set", "obj": st, "attr": "jobs", "value": ["refs", [j]]}
    args = {"append": [j], "iadd": [[j]], "insert": [0, j]}[m]
    return {"op": "list", "obj": st, "attr": "jobs", "method": m, "args": args}


KINDS = {"fill_empty_step": fill_empty_step_edit, "num": num_edit, "link": link_edit, "list_assign": list_assign_edit, "list_mut": list_mut_edit, "starts": starts_edit,
         "server_type": server_type_edit, "group": group_edit, "same_target_group": same_target_group_edit, "step_time": step_time_edit,
         "simulate": simulate_edit, "delete_pattern": delete_pattern_edit, "fresh_storage": fresh_storage_edit, "storage_base": storage_base_edit}
DEFAULT_MIX = ["num", "num", "num", "link", "link", "list_assign", "list_mut", "list_mut", "starts", "server_type", "group", "fill_empty_step",
               "same_target_group", "step_time", "simulate", "fresh_storage", "delete_pattern", "storage_base", "num", "num"]


def rand_edit(rnd, spec, mix=None):
    if mix is None and rnd.random() < 0.12:
        e = fill_empty_step_edit(rnd, spec)
        if e is not None:
            e["kind"] = "fill_empty_step"
            return e
    for _ in range(20):
        kind = rnd.choice(mix or DEFAULT_MIX)
        e = KINDS[kind](rnd, spec)
        if e is not None:
            e["kind"] = kind
            return e
    e = num_edit(rnd, spec); e["kind"] = "num"
    return e


# ---- edits that are expected to make recomputation fail (C15, C02, C14, C05) ---------------------------------------------
def risky_edit(rnd, spec, objs=None):
    """an edit built to be refused during *recomputation* (real triggers for every raising update function), or a
    preparation edit (fixing an instance count at exactly the current need) that makes later edits fail late in the chain"""
    E = env.load()
    O = spec["objects"]
    servers = names_of(spec, "Server"); storages = names_of(spec, "Storage"); jobs = names_of(spec, "Job"); ups = names_of(spec, "UsagePattern")
    choices = []
    if servers:
        choices += ["base_ram", "base_compute", "util", "ram_small"]
        if objs is not None:
            choices += ["fix_server", "fix_server", "fix_server_short"]
    if storages and objs is not None:
        choices += ["fix_storage", "fix_storage_short"]
    if storages and jobs:
        choices += ["base_storage_short"]
    if jobs:
        choices += ["delete_data", "zero_duration"]
    if ups:
        choices += ["traffic_up", "traffic_up", "tz_aware_starts"]
    if not choices:
        return None
    k = rnd.choice(choices)
    if k == "base_ram":
        s = rnd.choice(servers); ram = O[s]["params"]["ram"]
        return {"op": "set", "obj": s, "attr": "base_ram_consumption", "value": ["q", ram[1] * 2.37, ram[2]], "kind": "risky_" + k}
    if k == "base_compute":
        s = rnd.choice(servers); c = O[s]["params"]["compute"]
        return {"op": "set", "obj": s, "attr": "base_compute_consumption", "value": ["q", c[1] * 2.37, c[2]], "kind": "risky_" + k}
    if k == "util":
        s = rnd.choice(servers)
        return {"op": "set", "obj": s, "attr": "server_utilization_rate", "value": ["q", 1e-6, "dimensionless"], "kind": "risky_" + k}
    if k == "ram_small":
        s = rnd.choice(servers)
        return {"op": "set", "obj": s, "attr": "ram", "value": ["q", 1e-4, "GB"], "kind": "risky_" + k}
    force_short = k.endswith("_short")
    if force_short:
        k = k[:-6]
        onp = [x for x in servers if O[x]["params"]["server_type"][1] == "on-premise"]
        if k == "fix_server" and onp:
            servers = onp
    if k in ("fix_server", "fix_storage"):
        n = rnd.choice(servers if k == "fix_server" else storages)
        if k == "fix_server" and O[n]["params"]["server_type"][1] != "on-premise":
            return {"op": "set", "obj": n, "attr": "server_type", "value": ["s", "on-premise"], "kind": "risky_to_on_premise"}
        live = objs[n].raw_nb_of_instances        # the need itself (nb_of_instances is the current fixed count when there is one)
        if isinstance(live, E.EmptyExplainableObject):
            return None
        import numpy as np
        mx = float(np.max(np.asarray(live.value["value"].values._data, dtype=float)))
        if not np.isfinite(mx):
            return None
        # (beyond 1e6 instances the need is only known to a few ulps: leave a relative margin so that a fresh build agrees)
        need = float(np.ceil(mx)) if mx < 1e6 else float(np.ceil(mx * (1 + 1e-9)))
        if abs(mx - round(mx)) < max(1e-9, 1e-11 * abs(mx)):
            need = float(round(mx)) + 1
        if need >= 1 and (force_short or (need >= 2 and rnd.random() < 0.35)):
            # the count itself is given one short of the need: the failing edit does not recompute the need it is compared with
            return {"op": "set", "obj": n, "attr": "fixed_nb_of_instances", "value": ["q", need - 1, "dimensionless"], "kind": "risky_" + k + "_short"}
        return {"op": "set", "obj": n, "attr": "fixed_nb_of_instances", "value": ["q", need + rnd.choice([0, 0, 1]), "dimensionless"],
                "kind": "risky_" + k}
    if k == "base_storage_short":
        # a storage with a deleting job lives on its initial need: lowering that need alone drives the ledger negative (the hourly
        # deltas it is added to are not recomputed by this edit)
        cands = []
        for st in storages:
            srv = [x for x in servers if O[x]["params"]["storage"][1] == st]
            dels = [j for j in jobs if O[j]["params"]["server"][1] in srv and O[j]["params"]["data_stored"][1] < 0]
            if dels and O[st]["params"]["base_storage_need"][1] > 0:
                cands.append(st)
        if not cands:
            return None
        st = rnd.choice(cands)
        return {"op": "set", "obj": st, "attr": "base_storage_need", "value": ["q", 0, "TB"], "kind": "risky_" + k}
    if k == "zero_duration":
        # fails inside a per-pattern dict update, after the fresh (empty) dict has been installed
        j = rnd.choice(jobs)
        return {"op": "set", "obj": j, "attr": "request_duration", "value": ["q", 0, "s"], "kind": "risky_" + k}
    if k == "delete_data":
        j = rnd.choice(jobs)
        return {"op": "set", "obj": j, "attr": "data_stored", "value": ["q", -1e9, "TB"], "kind": "risky_" + k}
    if k == "tz_aware_starts":
        # local-time starts given with a time-zone-aware start date: accepted by the input checks, fails in the conversion to UTC (TypeError)
        up = rnd.choice(ups); h = O[up]["params"]["hourly_usage_journey_starts"]
        return {"op": "set", "obj": up, "attr": "hourly_usage_journey_starts", "value": ["h", list(h[1]), h[2][:19] + "+00:00", h[3]], "kind": "risky_" + k}
    if k == "traffic_up":
        up = rnd.choice(ups); h = O[up]["params"]["hourly_usage_journey_starts"]
        return {"op": "set", "obj": up, "attr": "hourly_usage_journey_starts", "value": ["h", [x * 1e6 + 1 for x in h[1]], h[2], h[3]], "kind": "risky_" + k}


def fix_count_edit(rnd, spec, objs):
    """give a storage or an on-premise server a fixed instance count at or above its current need, change it, or remove it"""
    E = env.load()
    O = spec["objects"]
    cands = [n for n in names_of(spec, "Storage")] + [n for n in names_of(spec, "Server") if O[n]["params"]["server_type"][1] == "on-premise"]
    cands = [n for n in cands if n in objs and not isinstance(objs[n].nb_of_instances, E.EmptyExplainableObject)]
    if not cands:
        return None
    n = rnd.choice(cands)
    cur = O[n]["params"].get("fixed_nb_of_instances", ["none"])
    if cur[0] == "q" and rnd.random() < 0.3:
        return {"op": "set", "obj": n, "attr": "fixed_nb_of_instances", "value": ["none"], "kind": "fix_count"}
    import numpy as np
    raw = objs[n].raw_nb_of_instances
    mx = float(np.max(np.asarray(raw.value["value"].values._data, dtype=float))) if not isinstance(raw, E.EmptyExplainableObject) else 0.0
    need = float(np.ceil(mx)) if mx < 1e6 else float(np.ceil(mx * (1 + 1e-9)))
    if abs(mx - round(mx)) < max(1e-9, 1e-11 * abs(mx)):
        need = float(round(mx)) + 1          # an (almost) integral need: a count equal to it would sit on the floating-point boundary
    return {"op": "set", "obj": n, "attr": "fixed_nb_of_instances", "value": ["q", need + rnd.choice([0, 1, 3, 7]), "dimensionless"], "kind": "fix_count"}
